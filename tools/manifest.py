#!/usr/bin/env python3
"""Regenerates MANIFEST.json from the table below (keeps it valid at all times)."""
import json
import os
import subprocess

ROOT = os.path.dirname(os.path.dirname(os.path.abspath(__file__)))

# id -> (built, category, design_ref, technique, text, note)
P = {
 "C01": (True, "model_checking", "6 C01",
         "TLA+ functional spec (Codec.tla) checked by TLC over the bounded type/value universe; every TLC-enumerated behaviour replayed into the library",
         "TLC proves RoundTrip on the format for every type expression of depth <= 2 (quick) / 3 (thorough) over the full built-in vocabulary and every boundary value; each enumerated (type, value) is replayed: real encode, real decode, compare with the model value. Exhaustive within the stated bounds. Size axis (MC_Long: values on both sides of every var-int width change incl. 2^16) and depth / count axis (MC_Deep: recursive declarations 64 .. 300 (400) levels, 1024 / 1025 (2000) smart-pointer elements) included.",
         "bounds of spec/Universe.tla; glue dv::model trusted; TZ=UTC"),
 "C04": (True, "model_checking", "6 C04",
         "TLA+ reference encoder/decoder as the format definition; byte-for-byte replay of TLC-enumerated encodings (all legal forms) into the library",
         "Enc in spec/Codec.tla is the wire format, written from the format documentation and anchored to Scala-produced bytes; the library's bytes must equal it on every enumerated case and every alternative legal form (unknown-length sequences, chunked tuples, any hash order) must decode to the value. The string-table universe (sequences of deduplicated / plain strings in 8 placements, long streams, table neutrality) belongs to the format as well: same bytes.",
         "the specification is the reference; independence from the code rests on the golden file, the pinned Point vector and the documentation"),
 "C02": (True, "translation_validation", "6 C02",
         "TLC enumerates declarations (MC_Decl.tla) and checks mechanism = documented procedure on the spec; each declaration is compiled through the real derive macro and its behaviour compared with the specification's interpretation of the same declaration; trace validation of the record mechanism recorded from the running library (Trace_Adt against AdtMech.tla: per-field decisions of writer and reader, enum layer) and of the writer machine (Trace_Writer against Writer.tla, model-checked by MC_Writer)",
         "translation validation of the macro expansion: >1000 declarations (struct shapes x transient subsets x Option spellings x evolution annotations x nesting/recursion x special field names; enums x shapes x transient x sorted x variant evolution), every value over 2-point field domains: bytes, decoded value (transient reset), self-delimitation, prefix rejection.",
         "declaration universe bounded as in spec/MC_Decl.tla; tools/gen_decl.py trusted"),
 "C09": (True, "model_checking", "6 C09",
         "TLA+ string-table semantics (Codec!StoreString used by Enc and Dec alike) checked by TLC on MC_Strings.tla over all write sequences x placements; every sequence replayed through the library (one context per stream)",
         "all sequences of <= 4 (quick) / 5 (thorough) writes over {a, b, gone} x {dedup, plain} in 8 placements incl. evolved records whose header carries a removed / transient field name colliding with a value, and two such records in a vector; bytes, decoded strings, first-is-plain / repeat-is-VarI(-id) / no-repeat-no-cost, and ids never introduced. Long streams: 130 / 300 / 8200 distinct strings followed by repeats of ids on both sides of every width change of a back-reference; evolved record whose added field is declared first. 630 sequences that mix deduplicated strings with offers to the object table: each table numbers its own entries (TablesIndependent).",
         "cross-version dedup is documented by the library as incompatible and is outside the property"),
 "C10": (True, "model_checking", "6 C10",
         "TLA+ object-table and graph-codec specification (Refs.tla) checked by TLC on every small rooted graph; each graph replayed with an Rc<RefCell<Node>> codec built on the library's reference-tracking API, compared by bytes and by pointer-identity canonical form",
         "all 2249 successor structures on <= 3 nodes (out-degree <= 2) x 2 labelings: isomorphism incl. sharing and distinctness, each reachable object written once, ids in pre-order, termination on cycles; every stream byte rewritten to an object number beyond the table must be rejected as the reference says. Chains of 130 (129 .. 300) nodes whose back-reference cites objects on both sides of 127/128 and 255/256; all offer sequences <= 4 over a record, its first member (same address) and an unrelated object; sharing across the chunks of a record with a header; the table's events of every replayed graph validated by Trace_Refs. Offers made from two crates (four assignments of call sites per sequence); 630 sequences mixing offers and deduplicated strings.",
         "the graph codec is harness code (the library ships none); decoded nodes are registered from a boxed arena because the table stores raw pointers (D13)"),
 "C11": (True, "model_checking", "6 C11",
         "VarintCore.tla instantiated twice: over unbounded Int for Apalache (statements proved for all 2^32 u32 and all 2^32 i32 values) and over <<hi4, lo28>> pairs for TLC (all group / zig-zag boundaries, emitted as vectors); replay of the vectors through 4 sinks x 3 sources and a sweep of the real functions against a transliteration of the spec pinned to the vectors",
         "symbolic: UnsignedRoundTrip (bijection, continuation bits, no complete strict prefix), UnsignedMinimal (exact 1-5 byte thresholds), ZigZagLemma and ZigZagOnto (bijection i32 <-> u32, signed thresholds) for every value; executed: quick sweeps every 16th u32 and i32 (random phase), thorough sweeps all 2 x 2^32 values (exhaustive). Every vector and every swept value is also read in context (bytes before and after: InContext) on all sources.",
         "Apalache/Z3; the 15-line Rust transliteration of VarintCore.tla (checked against every TLC vector first)"),
 "C12": (True, "model_checking", "6 C12",
         "TLC invariants ContainerIndependent / FormIndependent / SameBytes / BytesInterchangeable on MC_Containers.tla; cross-container replay (bytes really written by the source container read as every target container)",
         "7 element types x all element lists of length 0..3 over 3 values x 7 source containers x targets incl. arrays of the wrong length x known / unknown length forms; the public sequence writers (serialize_iterator with exact and inexact size hint, slices); Vec<u8> / Bytes / [u8; N] among themselves.",
         "hash containers iterate in unspecified order: ordered targets are compared as multisets in that case"),
 "C13": (True, "translation_validation", "6 C13",
         "TLC invariants CtorIdentity / ExtensionSafe / UnknownCtorErr on MC_Decl.tla; enum pairs (E, E') generated as separate derived Rust types and replayed",
         "all enums of 1-3 variants over unit/tuple/struct shapes x transient placement x sorted/unsorted (names chosen so sorting permutes), all extensions by 1-2 later constructors (appended; for sorted enums also declared first), all indices >= n incl. 127, 128, 2^28, 2^32-1, each followed by junk, by a complete honest value and by an honest value without its version byte: decoded by the other definition / must be the dedicated errors. Unit constructors with a history. Wide enums (130 constructors: two-byte indices); write_constructor / read_constructor events validated by Trace_Adt.",
         "bounded enum universe; error classes compared through the harness' error-class map"),
 "C14": (True, "translation_validation", "6 C14",
         "TLC invariants TransientInvisible / TransientCtorErr on MC_Decl.tla and histories ending in FieldMadeTransient in MC_Evo.tla; derived types generated and replayed",
         "transient fields at every non-empty subset of positions with two different non-default values (bytes must be identical and equal to the spec's, decode must give the declared default); transient constructors at every index (SerializingTransientConstructor naming type and constructor); made-optional-then-transient declarations encode.",
         "bounded declaration universe"),
 "C15": (True, "model_checking", "6 C15",
         "replay of the C01 universe on five sinks + SizeCalculator against the specification's bytes; MC_Prim.tla reader state machine (cursor semantics of every primitive read) checked by TLC and replayed on the three BinaryInput implementations; MC_PrimOut.tla: scripts of primitive writes on four sinks directly and through a SerializationContext, read back on three sources",
         "sinks: every (type, value) of the built-in universe on Vec<u8>, BytesMut, serialize_to_bytes, serialize_to_byte_vec, a recording user-defined output (all byte-identical and equal to the spec) and SizeCalculator (exact length). sources: every script of <= 2 (quick) / 3 (thorough) primitive reads (fixed width, var_u32, var_i32, bytes / skip of 0, 1, 3 and usize::MAX) over every byte string of length <= 3 over the hostile alphabet: results, first InputEnded and cursor position identical to the model on SliceInput, OwnedInput and DeserializationContext. Compressed blocks of six contents at every level on every sink, the size calculator and contexts over them.",
         "the payload of compressed blocks (DEFLATE) is C16's business; here only that every sink holds, and the calculator counts, the same bytes"),
 "C16": (True, "fault_enumeration", "6 C16",
         "Compressed.tla (frame = var_u32(|d|) var_u32(|z|) z, reader, allocation rule) checked by TLC; trace validation: every frame the library writes and every read it performs is recorded and checked by TLC against Trace_Compressed.tla; payloads inflated by python zlib",
         "8 contents (empty .. 256 KiB quick / 8 MiB thorough) x levels 0-9 x 3 sinks x 3 sources with a suffix; truncation at every byte of the header and near both payload ends and every 64th (7th) byte in between; bit flips in the first 64 bytes and both length varints rewritten to 7 values each: totality, the allocation bound max(64 KiB, 2 x bytes actually produced) and a result that does not depend on fresh memory. Deflate.tla / MC_Deflate: 132 stored-block streams (every split of 0..3 bytes into <= 3 blocks x 3 paddings, splits of 300 / 1000 bytes) x 5 announced lengths built by the specification and read back on every source; level-0 payloads inflated by the specification.",
         "DEFLATE is not specified (opaque payload); python zlib is the independent payload oracle; on a failed read 'bytes actually produced' is measured by running an inflater over the same payload"),
 "C17": (True, "model_checking", "6 C17",
         "TLC invariant EncTotal on MC_EncTotal.tla (outcome of the reference encoder is Ok or the documented error class); replay under catch_unwind on every sink; exhaustive sweep of all Unicode scalar values; counts announced through exact size hints",
         "all 1 112 064 scalar values of char (encodable iff <= U+FFFF); unencodable characters nested in 7 container / record shapes (error propagates, every entry point hands back Err); dangling FieldMadeOptional -> UnknownFieldReferenceInEvolutionStep; a record with 254 declared steps; sequence counts i32::MAX / i32::MAX+1 / u32::MAX / u32::MAX+1; (thorough) a 2 GiB string and a 4 GiB byte vector; transient constructors in C14's universe. All step lists <= 2 (3) naming a ghost field against the rule IsDangling; codecs that make a top-level call of their own (envelope): five outer x four inner entry points. Size hints of the sequence writer: 11 kinds (exact, none, loose, upper bounds usize::MAX / 2^31 / 2^32) x 0 / 1 / 3 items x 4 entry points against HintBytes.",
         "write_compressed with >= 4 GiB input is not executed (minutes of DEFLATE); its length check is the same try_into pattern"),
 "C18": (True, "model_checking", "6 C18",
         "PlusCal specification Calls.tla (per-type Once protocol, per-call tables, non-atomic call bodies) checked by TLC over all interleavings incl. liveness; two defect models must be caught; stress replay: fresh process per trial, barrier-released threads on first use of many derived types, results compared with the specification's fresh-call answer",
         "spec: all interleavings of 3 threads x 3 calls over 3 types (OnceOnly, ResultIndependent, CtxFresh, MetaStable, CallsTerminate under weak fairness); shared-table and no-Once defect models are detected (vacuity guard). code: 24 (quick) / 400 (thorough) trials, 2 / 8 / 16 threads, ~240 derived types each with its own lazy metadata first-used under contention, then steady state in rotated order; items include records with deduplicated strings and a cyclic object graph so that table state leaking between calls or threads changes bytes. One controlled schedule: all threads wait for each other at the innermost of 70 / 150 / 400 nesting levels (all calls at their deepest point at once).",
         "real thread schedules are stressed, not enumerated"),
 "C19": (True, "other", "6 C19",
         "RefLife.tla: TLC enumerates all client programs over the object table and classifies them by GetSafe; each is rendered as safe Rust on three API paths and compiled (legal siblings must compile, violating programs must be rejected); catalogue of the API's other borrow relationships; unsafe decode paths replayed under Miri on model-generated vectors, cross-checked with the reference decoder",
         "the observables are a compiler verdict and an interpreter's undefined-behaviour report: the specification generates programs and inputs, rustc and Miri are the monitors (level: other). D13 (object table keeps raw pointers) is a listed known finding: its witnesses compile.",
         "AddressSanitizer is not used (Miri also sees uninitialised reads, which ASan does not); Miri executes ~2500 vectors per run"),
 "C03": (True, "model_checking", "6 C03",
         "TLA+ Adt.tla: TLC enumerates all legal evolution histories and checks mechanism (header/chunks/regions) = documented outcome; each history is rendered as derive inputs (one Rust type per version) and every (writer, reader, value, embedding) case replayed; the per-field decision table (AdtMech.tla) is proved by TLC to refine the documented outcome (KindsMeanOutcome) and the decisions recorded from the running library are validated against it (Trace_Adt), the buffer / chunk mechanism against Writer.tla (Trace_Writer)",
         "TLC checks every legal history up to 3 steps (thorough: 4 steps in two embeddings) from every initial record of 0-2 fields; replayed into generated Rust types: every history up to 2 steps plus 1/16 (quick) / 1/4 (thorough) of the 3-step and 1/256 of the 4-step ones, all version pairs, all values, six embeddings (top level, in a tuple, in a chunk, in a vector in a chunk, as an enum constructor with named and with positional fields); expected outcome computed by the specification's Expected operator written from the documentation; vacuity guards: dropping the legality rule or the DESIGN-9 exclusion makes TLC fail.",
         "field types limited to u8/Option<u8> (plus String and a nested record in the rich configuration); histories bounded; gen_decl.py trusted to render declarations"),
 "C05": (True, "fault_enumeration", "6 C05",
         "TLA+ reference decoder evaluated by TLC on every enumerated hostile input (DecTotal / TamperTotal on Hostile.tla); each input decoded by the library under panic, hang, time and heap monitors in debug (overflow checks) and release builds; Reader.tla's RegionInv proved inductive by Apalache for every buffer length, read size and region (ReaderInt.tla); deep well-formed inputs (MC_Deep), multi-byte text probes (MC_Text), irregular-history data",
         "all strings over an 8-symbol tag/length alphabet up to length 3 (quick) / 4 (thorough) x 77 target types; every tamper operator (set to each alphabet value, delete, duplicate, insert, swap) at every position of every valid encoding of the depth-2 universe, of derived / evolved / nested / recursive records and of their in-chunk embeddings; all 256^2 strings per type (totality only); witnesses of the two known findings. Compressed blocks (cuts, bit flips, rewritten headers); every input the library accepts is decoded a second time with fresh heap memory filled differently and must give the same value.",
         "budgets are monitors, not model properties; D14 / D15 are listed known findings (known_findings.json)"),
 "C06": (True, "fault_enumeration", "6 C06",
         "strict TLA+ reference decoder (DESIGN 4.5 leniencies only) gives the verdict for every TLC-enumerated tampered / raw input; replay: implementation Ok(v) must imply reference Ok(v) with the same bytes consumed; Trace_Reader validation of recorded reads / regions; Apalache inductive RegionInv; well-formed data of irregular histories and multi-byte text probes with the reference verdict",
         "same hostile universe as C05 with emphasis on framing (chunk sizes, counts, lengths, tags, position and version bytes rewritten at every position in every embedding); the implication is evaluated per input against the emitted reference verdict.",
         "the reference decoder is the specification; inputs it leaves Unspecified (non-canonical decimals, unknown time-zone names, leap-second timestamps) are checked for totality only"),
 "C07": (True, "model_checking", "6 C07",
         "TLC invariant SelfDelimiting on the spec; replay of encoding++suffix through a DeserializationContext counting bytes left",
         "every enumerated encoding followed by each suffix of a suffix set decodes to the same value and leaves exactly the suffix; checked on the spec by TLC and on the code by replay. Suffixes are junk bytes plus the encodings of the first / last boundary value of every leaf type (FollowerSuffixes), for built-in, derived and evolved types.",
         "suffix set is finite (6 suffixes chosen to look like more items / varint continuation / tags)"),
 "C08": (True, "fault_enumeration", "6 C08",
         "TLC invariant PrefixRejected on the spec over every cut point; replay of every strict prefix of every enumerated encoding into the library",
         "crash points = cut positions: every strict prefix of every enumerated valid encoding must be an error (not Ok, not a panic), exhaustively per encoding.",
         "bounded universe of encodings"),
}

REASON_NOT_BUILT = "check not built yet in this round (DESIGN.md section 12 gives the order of work); it will be claimed once its TLA+ configuration and replay harness exist"


def main():
    checks = []
    na = []
    for i in range(1, 20):
        pid = "C%02d" % i
        if pid in P and P[pid][0]:
            _, cat, ref, tech, text, note = P[pid]
            checks.append({
                "property_id": pid,
                "quick_cmd": "python3 tools/check.py %s --tier quick" % pid,
                "thorough_cmd": "python3 tools/check.py %s --tier thorough" % pid,
                "evidence_file": "/verif/evidence/%s.json" % pid,
                "replay_cmd_template": "python3 tools/check.py %s --replay {path}" % pid,
                "engine": "tlc+dv-harness",
                "level_claimed": {"category": cat, "text": text, "design_ref": "DESIGN.md section " + ref},
                "level_note": note,
                "technique": tech,
            })
        else:
            na.append({"property_id": pid, "reason": REASON_NOT_BUILT})
    try:
        commits = subprocess.run(["git", "-C", "/repo", "log", "--format=%h %s", "--grep=^verif-hook", "145a252..HEAD"],
                                 stdout=subprocess.PIPE).stdout.decode().split("\n")
        commits = [c.split()[0] for c in commits if c.strip()]
    except Exception:
        commits = []
    m = {
        "version": 1,
        "setup_cmd": "python3 tools/check.py setup",
        "hooks": {
            "guard": "desert_verif",
            "enable": "rustc --cfg desert_verif, set only by /verif/harness/.cargo/config.toml (build.rustflags) for builds of the harness; the repository's own build never sets it",
            "baseline_off_cmd": "cd /repo && cargo test --workspace --no-fail-fast --offline",
            "source_commits": commits,
            "add_only": True,
        },
        "engines": [
            {"name": "tlc", "path": "/usr/local/bin/tlc", "serves_properties": [c["property_id"] for c in checks],
             "kind_free_text": "TLC 1.8.0 explicit-state model checker on the TLA+ modules under /verif/spec"},
            {"name": "dv-harness", "path": "/verif/harness", "serves_properties": [c["property_id"] for c in checks],
             "kind_free_text": "Rust replay harness (path dependency on /repo) that replays TLC-emitted behaviours into the library"},
        ],
        "checks": checks,
        "notes": "All checks: python3 tools/check.py <ID> --tier quick|thorough. Exit 0 held / 1 VIOLATION / 2 tool error. Known findings in known_findings.json.",
        "not_applicable": na,
    }
    with open(os.path.join(ROOT, "MANIFEST.json"), "w") as f:
        json.dump(m, f, indent=1)
        f.write("\n")


if __name__ == "__main__":
    main()
