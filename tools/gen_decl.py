"""Rendering of derived declarations (model JSON -> #[derive(BinaryCodec)] items + glue)."""
import hashlib
import json

from gen_rust import key

NAMED = {"RecList", "RecTree", "RecEnum", "Throwable"}


def name_str(n):
    return bytes(n).decode("ascii")


def decl_name(gen, ty):
    if ty["k"] == "named":
        return ensure_named(gen, ty["name"])
    k = key(ty)
    if k in gen.decls:
        return gen.decls[k]
    name = ("S%d" if ty["k"] == "struct" else "E%d") % len(gen.decls)
    gen.decls[k] = name
    if ty["k"] == "struct":
        gen.decl_src.append(render_struct(gen, name, ty))
    else:
        gen.decl_src.append(render_enum(gen, name, ty))
    return name


def ensure_named(gen, name):
    k = "named:" + name
    if k in gen.decls:
        return gen.decls[k]
    gen.decls[k] = name
    gen.decl_src.append(NAMED_SRC[name])
    return name


def mv(gen, ty_str, v):
    return 'dv::mv::<%s>(%s)' % (ty_str, json.dumps(json.dumps(v, separators=(",", ":"))))


def spelling(f):
    """How an Option field is written.  The specification's "Option" (the macro recognises it) is rendered in one of three
    equivalent ways, chosen by the field itself: Option<T>, (Option<T>), or through a macro_rules `$t:ty` fragment."""
    sp = f.get("sp", "Option")
    if sp == "Option":
        h = int(hashlib.sha1(json.dumps(f, sort_keys=True).encode()).hexdigest()[:4], 16) % 4
        return {1: "paren", 2: "tmpl"}.get(h, "Option")
    return sp


def field_type(gen, f):
    t = f["t"]
    if t["k"] == "opt":
        inner = gen.rust_type(t["e"])
        sp = spelling(f)
        if sp == "std":
            return "std::option::Option<%s>" % inner
        if sp == "core":
            return "core::option::Option<%s>" % inner
        if sp == "alias":
            return "dv::Opt<%s>" % inner
        if sp == "paren":
            return "(Option<%s>)" % inner
        if sp == "tmpl":
            idx = getattr(gen, "tmpl_idx", {}).get(id(f))
            return "$t%d" % idx if idx is not None else "(Option<%s>)" % inner        # (variants: parenthesised)
        return "Option<%s>" % inner
    return gen.rust_type(t)


def evolution_attr(gen, fields, steps):
    if not steps:
        return ""
    fmap = {name_str(f["n"]): f for f in fields}
    parts = []
    for s in steps:
        n = name_str(s["n"])
        if s["op"] == "Added":
            f = fmap.get(n)
            if f is None or s["dv"] == []:
                d = "()"          # never compiled into the impl: the field is gone
            else:
                # (also for a field that was made transient later: the macro does not use this expression then,
                # but a definition written by hand would carry a real one - seeded S47 / S54)
                d = mv(gen, field_type(gen, f), s["dv"])
            parts.append('FieldAdded("%s", %s)' % (n, d))
        elif s["op"] == "MadeOptional":
            parts.append('FieldMadeOptional("%s")' % n)
        elif s["op"] == "Removed":
            parts.append('FieldRemoved("%s")' % n)
        elif s["op"] == "MadeTransient":
            parts.append('FieldMadeTransient("%s")' % n)
        else:
            raise ValueError(s["op"])
    # the macro concatenates the steps of all `evolution` attributes: every other multi-step history is spelled
    # with one attribute per step (the choice depends only on the history, so it is stable between runs)
    if len(parts) >= 2 and int(hashlib.sha1(", ".join(parts).encode()).hexdigest()[:4], 16) % 2 == 0:
        return " ".join("#[evolution(%s)]" % x for x in parts)
    return "#[evolution(%s)]" % ", ".join(parts)


def render_fields(gen, fields, named, pub):
    out = []
    for f in fields:
        ft = field_type(gen, f)
        tr = ""
        if f["tr"]:
            tr = "#[transient(%s)] " % mv(gen, ft, f["dv"])
        if named:
            out.append("%s%s%s: %s" % (tr, "pub " if pub else "", name_str(f["n"]), ft))
        else:
            out.append("%s%s" % (tr, ft))
    return out


HASHABLE_LEAVES = {"u8", "u16", "u32", "u64", "i8", "i16", "i32", "i64", "bool", "str", "char", "unit"}


def hashable_fields(fields):
    def ok(t):
        return t["k"] in HASHABLE_LEAVES or (t["k"] == "opt" and ok(t["e"]))
    return all(ok(f["t"]) for f in fields)


def cloneable(fields):
    """DeduplicatedString implements nothing but the codec traits: records that hold one cannot derive Clone"""
    return "dstr" not in json.dumps([f["t"] for f in fields])


def render_struct(gen, name, ty):
    fields = ty["fields"]
    # fields spelled "tmpl" get their type through a `$t:ty` fragment of a macro_rules template
    tmpl = [f for f in fields if f["t"]["k"] == "opt" and spelling(f) == "tmpl"]
    gen.tmpl_idx = {id(f): i for i, f in enumerate(tmpl)}
    # (records of plain fields can be elements of hash containers)
    src = ["#[derive(desert_macro::BinaryCodec, Clone, PartialEq, Eq, Hash)]" if hashable_fields(fields) else ("#[derive(desert_macro::BinaryCodec, Clone)]" if cloneable(fields) else "#[derive(desert_macro::BinaryCodec)]")]
    ev = evolution_attr(gen, fields, ty["steps"])
    if ev:
        src.append(ev)
    if fields:
        src.append("pub struct %s { %s }" % (name, ", ".join(render_fields(gen, fields, True, True))))
    else:
        src.append("pub struct %s;" % name)
    if tmpl:
        params = ", ".join("$t%d:ty" % i for i in range(len(tmpl)))
        args = ", ".join("Option<%s>" % gen.rust_type(f["t"]["e"]) for f in tmpl)
        src = ["macro_rules! mk_%s { (%s) => { %s } }" % (name, params, "\n".join(src)), "mk_%s!(%s);" % (name, args)]
    names = [name_str(f["n"]) for f in fields]
    mk = ", ".join("%s: dv::ModelType::from_model(&a[%d])" % (n, i + 1) for i, n in enumerate(names))
    to = "".join(", dv::ModelType::to_model(&self.%s)" % n for n in names)
    src.append("impl dv::ModelType for %s {" % name)
    if fields:
        src.append("    fn from_model(v: &serde_json::Value) -> Self { let a = dv::model::arr(v); %s { %s } }" % (name, mk))
    else:
        src.append("    fn from_model(_v: &serde_json::Value) -> Self { %s }" % name)
    src.append("    fn to_model(&self) -> serde_json::Value { serde_json::Value::Array(vec![serde_json::json!(20)%s]) }" % to)
    src.append("}")
    return "\n".join(src)


def render_enum(gen, name, ty):
    # every other enum with a unit constructor also derives Default and marks that constructor `#[default]`: a foreign
    # attribute that must not change anything about the codec
    h = int(hashlib.sha1(key(ty).encode()).hexdigest()[4:8], 16)
    units = [i for i, v in enumerate(ty["variants"]) if v["shape"] == "unit" and not v["tr"]]
    default_at = units[h % len(units)] if units and h % 2 == 0 else None
    cl = ", Clone" if all(cloneable(v["fields"]) for v in ty["variants"]) else ""
    src = ["#[derive(desert_macro::BinaryCodec%s, Default)]" % cl if default_at is not None else "#[derive(desert_macro::BinaryCodec%s)]" % cl]
    if ty["sorted"]:
        src.append("#[sorted_constructors]")
    src.append("pub enum %s {" % name)
    from_arms, to_arms = [], []
    # C-like enums: every other one is spelled with explicit discriminants (descending, with gaps) - the constructor
    # index of the format is the position in constructor order, whatever the in-memory discriminant is
    c_like = all(v["shape"] == "unit" for v in ty["variants"]) and len(ty["variants"]) >= 2 \
        and int(hashlib.sha1(key(ty).encode()).hexdigest()[:4], 16) % 2 == 0
    for i, var in enumerate(ty["variants"]):
        vn = name_str(var["n"])
        attrs = []
        if i == default_at:
            attrs.append("#[default]")
        if var["tr"]:
            attrs.append("#[transient]")
        ev = evolution_attr(gen, var["fields"], var["steps"])
        if ev:
            attrs.append(ev)
        fields = var["fields"]
        fnames = [name_str(f["n"]) for f in fields]
        if var["shape"] == "unit":
            body = vn if not c_like else "%s = %d" % (vn, 3 * (len(ty["variants"]) - i) + 1)
            from_arms.append("%d => %s::%s," % (i + 1, name, vn))
            to_arms.append("%s::%s => serde_json::json!([21, %d])," % (name, vn, i + 1))
        elif var["shape"] == "tuple":
            body = "%s(%s)" % (vn, ", ".join(render_fields(gen, fields, False, False)))
            mk = ", ".join("dv::ModelType::from_model(&a[%d])" % (j + 2) for j in range(len(fields)))
            from_arms.append("%d => %s::%s(%s)," % (i + 1, name, vn, mk))
            binds = ", ".join("x%d" % j for j in range(len(fields)))
            to = "".join(", dv::ModelType::to_model(x%d)" % j for j in range(len(fields)))
            to_arms.append("%s::%s(%s) => serde_json::Value::Array(vec![serde_json::json!(21), serde_json::json!(%d)%s])," % (name, vn, binds, i + 1, to))
        else:
            body = "%s { %s }" % (vn, ", ".join(render_fields(gen, fields, True, False)))
            mk = ", ".join("%s: dv::ModelType::from_model(&a[%d])" % (n, j + 2) for j, n in enumerate(fnames))
            from_arms.append("%d => %s::%s { %s }," % (i + 1, name, vn, mk))
            binds = ", ".join(fnames)
            to = "".join(", dv::ModelType::to_model(%s)" % n for n in fnames)
            to_arms.append("%s::%s { %s } => serde_json::Value::Array(vec![serde_json::json!(21), serde_json::json!(%d)%s])," % (name, vn, binds, i + 1, to))
        src.append("    %s %s," % (" ".join(attrs), body))
    src.append("}")
    src.append("impl dv::ModelType for %s {" % name)
    src.append("    fn from_model(v: &serde_json::Value) -> Self { let a = dv::model::arr(v); match dv::model::int(&a[1]) {")
    src.extend("        " + x for x in from_arms)
    src.append('        t => panic!("variant {t}"), } }')
    src.append("    fn to_model(&self) -> serde_json::Value { match self {")
    src.extend("        " + x for x in to_arms)
    src.append("    } }")
    src.append("}")
    return "\n".join(src)


NAMED_SRC = {
    "Throwable": '''#[derive(desert_macro::BinaryCodec, Clone)]
pub struct Throwable { pub class_name: String, pub message: String,
    pub stack_trace: Vec<(Option<String>, Option<String>, Option<String>, dv::VarU32, )>, pub cause: Option<Box<Throwable>> }
impl dv::ModelType for Throwable {
    fn from_model(v: &serde_json::Value) -> Self { let a = dv::model::arr(v); Throwable { class_name: dv::ModelType::from_model(&a[1]),
        message: dv::ModelType::from_model(&a[2]), stack_trace: dv::ModelType::from_model(&a[3]), cause: dv::ModelType::from_model(&a[4]) } }
    fn to_model(&self) -> serde_json::Value { serde_json::json!([20, dv::ModelType::to_model(&self.class_name), dv::ModelType::to_model(&self.message),
        dv::ModelType::to_model(&self.stack_trace), dv::ModelType::to_model(&self.cause)]) }
}''',
    "RecList": '''#[derive(desert_macro::BinaryCodec, Clone)]
pub struct RecList { pub v: u8, pub next: Option<Box<RecList>> }
impl dv::ModelType for RecList {
    fn from_model(v: &serde_json::Value) -> Self { let a = dv::model::arr(v); RecList { v: dv::ModelType::from_model(&a[1]), next: dv::ModelType::from_model(&a[2]) } }
    fn to_model(&self) -> serde_json::Value { serde_json::json!([20, dv::ModelType::to_model(&self.v), dv::ModelType::to_model(&self.next)]) }
}''',
    "RecTree": '''#[derive(desert_macro::BinaryCodec, Clone)]
#[evolution(FieldAdded("kids", Vec::new()))]
pub struct RecTree { pub v: u8, pub kids: Vec<RecTree> }
impl dv::ModelType for RecTree {
    fn from_model(v: &serde_json::Value) -> Self { let a = dv::model::arr(v); RecTree { v: dv::ModelType::from_model(&a[1]), kids: dv::ModelType::from_model(&a[2]) } }
    fn to_model(&self) -> serde_json::Value { serde_json::json!([20, dv::ModelType::to_model(&self.v), dv::ModelType::to_model(&self.kids)]) }
}''',
    "RecEnum": '''#[derive(desert_macro::BinaryCodec, Clone)]
pub enum RecEnum { Leaf(u8), Node { l: Box<RecEnum>, r: Box<RecEnum> } }
impl dv::ModelType for RecEnum {
    fn from_model(v: &serde_json::Value) -> Self { let a = dv::model::arr(v); match dv::model::int(&a[1]) {
        1 => RecEnum::Leaf(dv::ModelType::from_model(&a[2])),
        2 => RecEnum::Node { l: dv::ModelType::from_model(&a[2]), r: dv::ModelType::from_model(&a[3]) },
        t => panic!("variant {t}"), } }
    fn to_model(&self) -> serde_json::Value { match self {
        RecEnum::Leaf(x) => serde_json::json!([21, 1, dv::ModelType::to_model(x)]),
        RecEnum::Node { l, r } => serde_json::json!([21, 2, dv::ModelType::to_model(l), dv::ModelType::to_model(r)]), } }
}''',
}
