#!/usr/bin/env python3
"""Run checks against a seeded breaking change: apply the patch to /repo, run, undo.

  mutant.py try <patch.diff> <ID> [<ID> ...] [--tier quick]
Prints, per check, the exit code and the VIOLATION / KNOWN-FINDING lines.  /repo is always restored.
"""
import subprocess
import sys
import os
import time

ROOT = os.path.dirname(os.path.dirname(os.path.abspath(__file__)))


def sh(cmd, **kw):
    return subprocess.run(cmd, stdout=subprocess.PIPE, stderr=subprocess.STDOUT, **kw)


def main():
    args = sys.argv[1:]
    if len(args) < 3 or args[0] != "try":
        print(__doc__)
        return 2
    patch = os.path.abspath(args[1])
    tier = "quick"
    ids = []
    it = iter(args[2:])
    for a in it:
        if a == "--tier":
            tier = next(it)
        else:
            ids.append(a)
    st = sh(["git", "-C", "/repo", "status", "--porcelain", "--untracked-files=no"]).stdout.decode().strip()
    if st:
        print("refusing: /repo has local modifications:\n" + st)
        return 2
    p = sh(["git", "-C", "/repo", "apply", "--whitespace=nowarn", patch])
    if p.returncode != 0:
        p = sh(["git", "-C", "/repo", "apply", "--3way", "--whitespace=nowarn", patch])
        if p.returncode != 0:
            print("patch does not apply:", p.stdout.decode())
            sh(["git", "-C", "/repo", "checkout", "--", "."])
            return 2
    results = {}
    try:
        for pid in ids:
            t0 = time.time()
            r = sh([sys.executable, os.path.join(ROOT, "tools", "check.py"), pid, "--tier", tier], cwd=ROOT)
            out = r.stdout.decode(errors="replace")
            lines = [l for l in out.split("\n") if l.startswith(("VIOLATION", "KNOWN-FINDING", "TOOL-ERROR", "  check="))]
            results[pid] = (r.returncode, lines)
            print("== %s exit=%d (%.0fs)" % (pid, r.returncode, time.time() - t0))
            for l in lines[:6]:
                print("   " + l[:400])
            sys.stdout.flush()
    finally:
        sh(["git", "-C", "/repo", "reset", "-q", "--", "."])
        sh(["git", "-C", "/repo", "checkout", "--", "."])
    caught = [pid for pid, (rc, _) in results.items() if rc == 1]
    print("CAUGHT-BY:", " ".join(caught) if caught else "(none)")
    return 0


if __name__ == "__main__":
    sys.exit(main())
