"""C19 (a): safe-Rust witness programs against the public API, compiled with #![forbid(unsafe_code)].

Programs come from two sources:
  * MC_RefLife.tla: every client program over the object table (store / death of the referent / get / use),
    rendered for three API paths; those that violate GetSafe are lifetime-escape witnesses.
  * a catalogue of the API's other borrow relationships, each with a legal sibling.
A legal program must compile; a violating one must be rejected by the borrow checker.
"""
import glob
import os
import subprocess
from concurrent.futures import ThreadPoolExecutor

HEADER = """#![forbid(unsafe_code)]
#![allow(unused, dead_code)]
use desert_core::*;
use std::any::Any;
fn consume<T>(_x: T) {}
"""

PATHS = {
    "de-state": {
        "setup": "    let buf: Vec<u8> = vec![%(idx)d];\n    let mut ctx = DeserializationContext::new(&buf);\n",
        "store": "ctx.state_mut().store_ref(&o%(o)d);",
        "get": "r = ctx.state().get_ref_by_id(RefId(%(i)d)).unwrap();",
    },
    "de-try-read-ref": {
        "setup": "    let buf: Vec<u8> = vec![%(idx)d];\n    let mut ctx = DeserializationContext::new(&buf);\n",
        "store": "ctx.state_mut().store_ref(&o%(o)d);",
        "get": "r = ctx.try_read_ref().unwrap().unwrap();",
    },
    "ser-store-ref-or-object": {
        "setup": "    let mut ctx = SerializationContext::new(Vec::<u8>::new());\n",
        "store": "ctx.store_ref_or_object(&o%(o)d).unwrap();",
        "get": "r = ctx.state_mut().get_ref_by_id(RefId(%(i)d)).unwrap();",
    },
}


def render_reflife(prog, path):
    p = PATHS[path]
    idx = next((a[1] for a in prog if a[0] == "get"), 1)
    body = [p["setup"] % {"idx": idx}, "    let r: &dyn Any;\n"]
    indent = "    "
    inner_open = False
    for a in prog:
        k = a[0]
        if k == "alloc":
            if a[2] == "inner" and not inner_open:
                body.append(indent + "{\n")
                inner_open = True
                indent = "        "
            body.append('%slet mut o%d = String::from("object %d");\n' % (indent, a[1], a[1]))
        elif k == "store":
            body.append(indent + p["store"] % {"o": a[1]} + "\n")
        elif k == "endinner":
            indent = "    "
            body.append(indent + "}\n")
            inner_open = False
        elif k == "drop":
            body.append("%sdrop(o%d);\n" % (indent, a[1]))
        elif k == "move":
            body.append("%sconsume(o%d);\n" % (indent, a[1]))
        elif k == "overwrite":
            body.append('%so%d = String::from("another value");\n' % (indent, a[1]))
        elif k == "get":
            body.append(indent + p["get"] % {"i": a[1]} + "\n")
        elif k == "use":
            body.append(indent + 'println!("{}", r.downcast_ref::<String>().map(|s| s.len()).unwrap_or(0));\n')
    if inner_open:
        body.append("    }\n")
    return HEADER + "fn main() {\n" + "".join(body) + "}\n"


META = """fn meta() -> desert_core::adt::AdtMetadata {
    desert_core::adt::AdtMetadata::new(vec![Evolution::InitialVersion, Evolution::FieldAdded { name: "x".to_string() }])
}
"""

# (family, legal body, violating body, extra items)
CATALOGUE = [
    ("context-outlives-buffer",
     "    let buf = vec![1u8, 2];\n    let mut ctx = DeserializationContext::new(&buf);\n    println!(\"{:?}\", ctx.read_u8().is_ok());\n",
     "    let mut ctx;\n    {\n        let buf = vec![1u8, 2];\n        ctx = DeserializationContext::new(&buf);\n    }\n    println!(\"{:?}\", ctx.read_u8().is_ok());\n", ""),
    ("slice-input-outlives-buffer",
     "    let buf = vec![1u8, 2];\n    let mut inp = SliceInput::new(&buf);\n    println!(\"{:?}\", inp.read_u8().is_ok());\n",
     "    let mut inp;\n    {\n        let buf = vec![1u8, 2];\n        inp = SliceInput::new(&buf);\n    }\n    println!(\"{:?}\", inp.read_u8().is_ok());\n", ""),
    ("read-bytes-slice-across-next-read",
     "    let buf = vec![1u8, 2, 3];\n    let mut ctx = DeserializationContext::new(&buf);\n    let s = ctx.read_bytes(2).unwrap().to_vec();\n    let _ = ctx.read_u8();\n    println!(\"{:?}\", s);\n",
     "    let buf = vec![1u8, 2, 3];\n    let mut ctx = DeserializationContext::new(&buf);\n    let s = ctx.read_bytes(2).unwrap();\n    let _ = ctx.read_u8();\n    println!(\"{:?}\", s);\n", ""),
    ("owned-input-slice-across-next-read",
     "    let mut inp = OwnedInput::new(vec![1u8, 2, 3]);\n    let s = inp.read_bytes(2).unwrap().to_vec();\n    let _ = inp.read_u8();\n    println!(\"{:?}\", s);\n",
     "    let mut inp = OwnedInput::new(vec![1u8, 2, 3]);\n    let s = inp.read_bytes(2).unwrap();\n    let _ = inp.read_u8();\n    println!(\"{:?}\", s);\n", ""),
    ("try-read-ref-across-next-read",
     "    let x = String::from(\"x\");\n    let buf = vec![1u8, 2];\n    let mut ctx = DeserializationContext::new(&buf);\n    ctx.state_mut().store_ref(&x);\n    let n = ctx.try_read_ref().unwrap().map(|r| r.is::<String>());\n    let _ = ctx.read_u8();\n    println!(\"{:?}\", n);\n",
     "    let x = String::from(\"x\");\n    let buf = vec![1u8, 2];\n    let mut ctx = DeserializationContext::new(&buf);\n    ctx.state_mut().store_ref(&x);\n    let r = ctx.try_read_ref().unwrap();\n    let _ = ctx.read_u8();\n    println!(\"{:?}\", r.map(|r| r.is::<String>()));\n", ""),
    ("string-by-id-across-store-string",
     "    let buf = vec![0u8];\n    let mut ctx = DeserializationContext::new(&buf);\n    ctx.state_mut().store_string(\"a\".to_string());\n    let s = ctx.state().get_string_by_id(StringId(1)).map(|s| s.to_string());\n    ctx.state_mut().store_string(\"b\".to_string());\n    println!(\"{:?}\", s);\n",
     "    let buf = vec![0u8];\n    let mut ctx = DeserializationContext::new(&buf);\n    ctx.state_mut().store_string(\"a\".to_string());\n    let s = ctx.state().get_string_by_id(StringId(1));\n    ctx.state_mut().store_string(\"b\".to_string());\n    println!(\"{:?}\", s);\n", ""),
    ("ref-by-id-across-store-ref",
     "    let x = String::from(\"x\");\n    let y = String::from(\"y\");\n    let buf = vec![0u8];\n    let mut ctx = DeserializationContext::new(&buf);\n    ctx.state_mut().store_ref(&x);\n    let k = ctx.state().get_ref_by_id(RefId(1)).map(|r| r.is::<String>());\n    ctx.state_mut().store_ref(&y);\n    println!(\"{:?}\", k);\n",
     "    let x = String::from(\"x\");\n    let y = String::from(\"y\");\n    let buf = vec![0u8];\n    let mut ctx = DeserializationContext::new(&buf);\n    ctx.state_mut().store_ref(&x);\n    let r = ctx.state().get_ref_by_id(RefId(1));\n    ctx.state_mut().store_ref(&y);\n    println!(\"{:?}\", r.map(|r| r.is::<String>()));\n", ""),
    ("adt-serializer-outlives-context",
     "    let m = meta();\n    let mut ctx = SerializationContext::new(Vec::<u8>::new());\n    let mut ser = desert_core::adt::AdtSerializer::new(&m, &mut ctx);\n    ser.write_field(\"x\", &1u8).unwrap();\n    ser.finish().unwrap();\n",
     "    let m = meta();\n    let mut ser;\n    {\n        let mut ctx = SerializationContext::new(Vec::<u8>::new());\n        ser = desert_core::adt::AdtSerializer::new(&m, &mut ctx);\n    }\n    ser.write_field(\"x\", &1u8).unwrap();\n", META),
    ("adt-serializer-outlives-metadata",
     "    let m = meta();\n    let mut ctx = SerializationContext::new(Vec::<u8>::new());\n    let mut ser = desert_core::adt::AdtSerializer::new(&m, &mut ctx);\n    ser.finish().unwrap();\n",
     "    let mut ctx = SerializationContext::new(Vec::<u8>::new());\n    let mut ser;\n    {\n        let m = meta();\n        ser = desert_core::adt::AdtSerializer::new(&m, &mut ctx);\n    }\n    ser.finish().unwrap();\n", META),
    ("adt-deserializer-outlives-context",
     "    let m = meta();\n    let buf = vec![0u8, 5];\n    let mut ctx = DeserializationContext::new(&buf);\n    let mut de = desert_core::adt::AdtDeserializer::new_v0(&m, &mut ctx).unwrap();\n    let v: u8 = de.read_field(\"a\", None).unwrap();\n    println!(\"{}\", v);\n",
     "    let m = meta();\n    let buf = vec![0u8, 5];\n    let mut de;\n    {\n        let mut ctx = DeserializationContext::new(&buf);\n        de = desert_core::adt::AdtDeserializer::new_v0(&m, &mut ctx).unwrap();\n    }\n    let v: u8 = de.read_field(\"a\", None).unwrap();\n    println!(\"{}\", v);\n", META),
    ("context-used-while-serializer-alive",
     "    let m = meta();\n    let mut ctx = SerializationContext::new(Vec::<u8>::new());\n    {\n        let mut ser = desert_core::adt::AdtSerializer::new(&m, &mut ctx);\n        ser.finish().unwrap();\n    }\n    let out = ctx.into_output();\n    println!(\"{}\", out.len());\n",
     "    let m = meta();\n    let mut ctx = SerializationContext::new(Vec::<u8>::new());\n    let mut ser = desert_core::adt::AdtSerializer::new(&m, &mut ctx);\n    let out = ctx.into_output();\n    ser.finish().unwrap();\n    println!(\"{}\", out.len());\n", META),
    ("owned-input-slice-outlives-input",
     "    let v;\n    {\n        let mut inp = OwnedInput::new(vec![1u8, 2, 3]);\n        v = inp.read_bytes(2).unwrap().to_vec();\n    }\n    println!(\"{:?}\", v);\n",
     "    let s;\n    {\n        let mut inp = OwnedInput::new(vec![1u8, 2, 3]);\n        s = inp.read_bytes(2).unwrap();\n    }\n    println!(\"{:?}\", s);\n", ""),
    ("string-by-id-outlives-context",
     "    let buf = vec![0u8];\n    let s;\n    {\n        let mut ctx = DeserializationContext::new(&buf);\n        ctx.state_mut().store_string(\"a\".to_string());\n        s = ctx.state().get_string_by_id(StringId(1)).map(|x| x.to_string());\n    }\n    println!(\"{:?}\", s);\n",
     "    let buf = vec![0u8];\n    let s;\n    {\n        let mut ctx = DeserializationContext::new(&buf);\n        ctx.state_mut().store_string(\"a\".to_string());\n        s = ctx.state().get_string_by_id(StringId(1));\n    }\n    println!(\"{:?}\", s);\n", ""),
    ("try-read-ref-outlives-context",
     "    let x = String::from(\"x\");\n    let buf = vec![1u8];\n    let k;\n    {\n        let mut ctx = DeserializationContext::new(&buf);\n        ctx.state_mut().store_ref(&x);\n        k = ctx.try_read_ref().unwrap().map(|r| r.is::<String>());\n    }\n    println!(\"{:?}\", k);\n",
     "    let x = String::from(\"x\");\n    let buf = vec![1u8];\n    let r;\n    {\n        let mut ctx = DeserializationContext::new(&buf);\n        ctx.state_mut().store_ref(&x);\n        r = ctx.try_read_ref().unwrap();\n    }\n    println!(\"{:?}\", r.map(|r| r.is::<String>()));\n", ""),
    ("context-read-bytes-outlives-context-borrow",
     "    let buf = vec![1u8, 2, 3];\n    let mut ctx = DeserializationContext::new(&buf);\n    let a = ctx.read_bytes(1).unwrap().to_vec();\n    let b = ctx.read_bytes(1).unwrap().to_vec();\n    println!(\"{:?} {:?}\", a, b);\n",
     "    let buf = vec![1u8, 2, 3];\n    let mut ctx = DeserializationContext::new(&buf);\n    let a = ctx.read_bytes(1).unwrap();\n    let b = ctx.read_bytes(1).unwrap();\n    println!(\"{:?} {:?}\", a, b);\n", ""),
    ("decoded-value-outlives-input",     # legal only: decoded values are owned
     "    let v: Vec<String>;\n    {\n        let buf = vec![2u8, 2, 97, 0];\n        v = deserialize(&buf).unwrap();\n    }\n    println!(\"{:?}\", v);\n",
     None, ""),
]

BORROW_ERRORS = {"E0499", "E0502", "E0505", "E0506", "E0515", "E0521", "E0597", "E0713", "E0716", "E0382", "E0503"}


def catalogue_programs():
    out = []
    for fam, legal, bad, items in CATALOGUE:
        out.append({"family": fam, "violates": False, "src": HEADER + items + "fn main() {\n" + legal + "}\n"})
        if bad is not None:
            out.append({"family": fam, "violates": True, "src": HEADER + items + "fn main() {\n" + bad + "}\n"})
    return out


def find_rlib(target_dir):
    deps = os.path.join(target_dir, "debug", "deps")
    c = sorted(glob.glob(os.path.join(deps, "libdesert_core-*.rlib")), key=os.path.getmtime, reverse=True)
    if not c:
        raise RuntimeError("libdesert_core rlib not found in " + deps)
    return c[0], deps


def compile_one(args):
    src_path, out_dir, rlib, deps = args
    cmd = ["rustc", "--edition", "2021", "--crate-type", "bin", "--emit=metadata", "--error-format=short",
           "-L", "dependency=" + deps, "--extern", "desert_core=" + rlib, "--out-dir", out_dir,
           "--cfg", "desert_verif", "--check-cfg", "cfg(desert_verif)", src_path]
    p = subprocess.run(cmd, stdout=subprocess.PIPE, stderr=subprocess.STDOUT)
    text = p.stdout.decode(errors="replace")
    import re
    codes = sorted(set(re.findall(r"error\[(E\d+)\]", text)))
    return p.returncode == 0, codes, text[-800:]


def compile_all(programs, wd, target_dir, jobs=12):
    rlib, deps = find_rlib(target_dir)
    src_dir = os.path.join(wd, "witness")
    os.makedirs(src_dir, exist_ok=True)
    args = []
    for i, pr in enumerate(programs):
        path = os.path.join(src_dir, "w%04d.rs" % i)
        with open(path, "w") as f:
            f.write(pr["src"])
        pr["path"] = path
        args.append((path, src_dir, rlib, deps))
    with ThreadPoolExecutor(max_workers=jobs) as ex:
        for pr, (ok, codes, text) in zip(programs, ex.map(compile_one, args)):
            pr["compiles"] = ok
            pr["codes"] = codes
            pr["rustc"] = text
    return programs
