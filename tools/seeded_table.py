"""Regenerates the table of seeded changes in DESIGN.md section 14 from seeded/*/meta.json."""
import json
import pathlib
import re

ROOT = pathlib.Path(__file__).resolve().parent.parent
HEAD = "| seeded change | property | what it needs to manifest | caught by (quick tier) |\n|---|---|---|---|\n"


def rows():
    out = []
    for d in sorted((ROOT / "seeded").iterdir(), key=lambda x: int(re.match(r"S(\d+)", x.name).group(1))):
        m = json.loads((d / "meta.json").read_text())
        caught = ", ".join(m["caught_by"]) if m["caught_by"] else ("(not a violation as worded, see below)" if m["note"].startswith("NOT a violation") else "(reported as NOTE, see below)")
        out.append("| `%s` | %s | %s | %s |\n" % (m["id"], m["property"], m["needs_to_manifest"].replace("|", "/"), caught))
    return "".join(out)


def main():
    p = ROOT / "DESIGN.md"
    s = p.read_text()
    i = s.index(HEAD)
    j = re.compile(r"\n\n", re.S).search(s, i + len(HEAD)).start()
    p.write_text(s[:i] + HEAD + rows().rstrip("\n") + s[j:])


if __name__ == "__main__":
    main()
