"""Shared machinery for tools/check.py: TLC driver, harness build/run, evidence, verdicts."""
import hashlib
import json
import os
import re
import shutil
import subprocess
import sys
import time

ROOT = os.path.dirname(os.path.dirname(os.path.abspath(__file__)))
SPEC = os.path.join(ROOT, "spec")
HARNESS = os.path.join(ROOT, "harness")
WORK = os.path.join(ROOT, "work")
EVID = os.path.join(ROOT, "evidence")
REPLAYS = os.path.join(ROOT, "replays")
REPO = "/repo"

ENV = dict(os.environ)
ENV.update({"CARGO_NET_OFFLINE": "true", "TZ": "UTC", "RUST_BACKTRACE": "0"})


class ToolError(Exception):
    pass


def log(*a):
    print(*a, file=sys.stderr, flush=True)


def seed():
    try:
        return int(os.environ.get("VERIF_SEED", "1"))
    except ValueError:
        return 1


def workdir(name):
    d = os.path.join(WORK, "%s-%d" % (name, os.getpid()))
    shutil.rmtree(d, ignore_errors=True)
    os.makedirs(d)
    return d


# ----------------------------------------------------------------------------- TLC

def make_cfg(base, dest, constants=None, invariants=None, properties=None):
    """Copy spec/<base>.cfg to dest, overriding constants / invariant list."""
    lines = open(os.path.join(SPEC, base)).read().splitlines()
    out = []
    constants = dict(constants or {})
    for ln in lines:
        m = re.match(r"\s*(CONSTANTS?\s+)?(\w+)\s*=\s*(.+)$", ln)
        if m and m.group(2) in constants:
            ln = "%s%s = %s" % (m.group(1) or " ", m.group(2), constants.pop(m.group(2)))
        if invariants is not None and re.match(r"\s*INVARIANTS?\b", ln):
            ln = "INVARIANTS " + " ".join(invariants)
        if properties is not None and re.match(r"\s*PROPERTIES\b", ln):
            ln = "PROPERTIES " + " ".join(properties)
        out.append(ln)
    for k, v in constants.items():
        out.append("CONSTANT %s = %s" % (k, v))
    with open(dest, "w") as f:
        f.write("\n".join(out) + "\n")


REPLAY_RE = re.compile(r'^<<"(REPLAY|META|[A-Z]+)", (".*")>>\s*$')


def run_tlc(module, cfg, wd, workers=8, timeout=900, simulate=None, heap="8g", extra=None, deadlock=False, env_extra=None, on_record=None):
    """Run TLC; returns dict(stats, records: {tag: [json...]}, out: path).
    on_record(tag, obj) -> True consumes a record instead of keeping it (large universes: nothing is held twice)."""
    out_path = os.path.join(wd, module + ".out")
    md = os.path.join(wd, "md-" + module)
    cmd = ["java", "-XX:+UseParallelGC", "-Xss1g", "-Xmx" + heap,
           "-cp", "/opt/veriftools/tla/tla2tools.jar:/opt/veriftools/tla/CommunityModules-deps.jar",
           "tlc2.TLC", "-workers", str(workers), "-metadir", md, "-cleanup", "-noGenerateSpecTE",
           "-config", cfg]
    if simulate:
        cmd += ["-simulate", simulate]
    if not deadlock:
        pass
    cmd += list(extra or [])
    cmd += [os.path.join(SPEC, module + ".tla")]
    t0 = time.time()
    with open(out_path, "w") as f:
        try:
            p = subprocess.run(cmd, stdout=f, stderr=subprocess.STDOUT, cwd=SPEC, timeout=timeout, env=dict(ENV, **(env_extra or {})))
        except subprocess.TimeoutExpired:
            raise ToolError("TLC timed out after %ds on %s" % (timeout, module))
    wall = time.time() - t0
    records = {}
    stats = {"generated": 0, "distinct": 0, "depth": 0, "wall_s": round(wall, 1)}
    errors = []
    violated = []
    with open(out_path) as f:
        for ln in f:
            if ln.startswith('<<"'):
                m = REPLAY_RE.match(ln)
                if m:
                    obj = json.loads(json.loads(m.group(2)))
                    if not (on_record and on_record(m.group(1), obj)):
                        records.setdefault(m.group(1), []).append(obj)
                    continue
            m = re.match(r"(\d+) states generated, (\d+) distinct states found", ln)
            if m:
                stats["generated"] = int(m.group(1))
                stats["distinct"] = int(m.group(2))
            m = re.match(r"The depth of the complete state graph search is (\d+)", ln)
            if m:
                stats["depth"] = int(m.group(1))
            m = re.match(r"Error: Invariant (\w+) is violated", ln)
            if m:
                violated.append(m.group(1))
            elif re.match(r"Error: .*[Pp]ropert", ln) or "Temporal properties were violated" in ln:
                violated.append(ln.strip())
            elif ln.startswith("Error:"):
                errors.append(ln.strip())
    shutil.rmtree(md, ignore_errors=True)
    if violated:
        raise ToolError("specification-level failure in %s: %s (see %s)" % (module, violated, out_path))
    if p.returncode != 0 or errors:
        tail = "".join(open(out_path).readlines()[-15:])
        raise ToolError("TLC failed on %s (exit %d): %s\n%s" % (module, p.returncode, errors[:3], tail))
    log("[tlc] %s: %d states generated, %d distinct, %.1fs" % (module, stats["generated"], stats["distinct"], wall))
    return {"stats": stats, "records": records, "out": out_path}


def validate_trace(module, trace_path, wd, timeout=1800):
    """Trace validation: TLC replays the recorded events on Trace_<x>.tla.
    Returns dict(accepted, events, rejected: {index, reason, event} | None).  A trace the specification
    cannot even replay (shape) is a tool error: specification drift, not a verdict on the code."""
    n_events = sum(1 for _ in open(trace_path))
    if n_events == 0:
        raise ToolError("empty trace for %s: the hooks recorded nothing" % module)
    env = dict(ENV)
    env["TRACE"] = trace_path
    cfg = os.path.join(wd, module + ".cfg")
    make_cfg(module + ".cfg", cfg, {})
    out = os.path.join(wd, module + ".out")
    md = os.path.join(wd, "md-" + module)
    cmd = ["java", "-XX:+UseParallelGC", "-Xss1g", "-Xmx8g", "-Dtlc2.tool.queue.IStateQueue=StateDeque",
           "-cp", "/opt/veriftools/tla/tla2tools.jar:/opt/veriftools/tla/CommunityModules-deps.jar", "tlc2.TLC",
           "-workers", "1", "-metadir", md, "-cleanup", "-noGenerateSpecTE", "-config", cfg, os.path.join(SPEC, module + ".tla")]
    t0 = time.time()
    with open(out, "w") as f:
        try:
            p = subprocess.run(cmd, stdout=f, stderr=subprocess.STDOUT, cwd=SPEC, env=env, timeout=timeout)
        except subprocess.TimeoutExpired:
            raise ToolError("trace validation timed out: " + module)
    shutil.rmtree(md, ignore_errors=True)
    text = open(out).read()
    m = re.search(r'<<\s*"REJECTED",\s*(\d+),\s*"([^"]*)",\s*(.*?)>>\s*\n', text, re.S)
    if m:
        log("[trace] %s: %d events, REJECTED at %s: %s" % (module, n_events, m.group(1), m.group(2)))
        return {"accepted": False, "events": n_events, "rejected": {"index": int(m.group(1)), "reason": m.group(2), "event": m.group(3)[:500]}}
    if '"SHAPE"' in text or p.returncode != 0 or "Error:" in text:
        raise ToolError("trace of %s cannot be replayed on the specification (shape / tool problem):\n%s" % (module, text[-1500:]))
    log("[trace] %s: %d events accepted (%.1fs)" % (module, n_events, time.time() - t0))
    return {"accepted": True, "events": n_events, "rejected": None}


# ----------------------------------------------------------------------------- harness

def cargo_build(package, profile="dev", timeout=3600):
    cmd = ["cargo", "build", "--offline", "-p", package]
    if profile == "release":
        cmd.append("--release")
    if os.environ.get("VERIF_TIER") == "thorough" or THOROUGH:
        cmd += ["-j", "8"]          # thorough crates are large: bound the memory of parallel rustc processes
    t0 = time.time()
    p = subprocess.run(cmd, cwd=HARNESS, env=ENV, stdout=subprocess.PIPE, stderr=subprocess.STDOUT, timeout=timeout)
    if p.returncode != 0:
        text = p.stdout.decode(errors="replace")
        raise BuildError(package, text)
    log("[cargo] built %s (%s) in %.1fs" % (package, profile, time.time() - t0))
    return os.path.join(HARNESS, "target", "release" if profile == "release" else "debug", package)


class BuildError(ToolError):
    def __init__(self, package, text):
        ToolError.__init__(self, "cargo build of %s failed:\n%s" % (package, text[-4000:]))
        self.package = package
        self.text = text


THOROUGH = False     # set by check.py for --tier thorough
FOLLOWERS = None     # path of a JSON file with the follower suffixes (C07) emitted by the specification


def set_followers(wd, res):
    """Keep the follower suffixes a TLC run emitted (META record) for the replay binaries."""
    global FOLLOWERS
    meta = res["records"].get("META", [{}])[0]
    fl = meta.get("followers") or meta.get("suffixes")
    if fl:
        FOLLOWERS = os.path.join(wd, "followers.json")
        with open(FOLLOWERS, "w") as f:
            json.dump(fl, f)
    return fl or []


def run_runner(binary, cases_path, findings_path, n_cases, case_timeout=20.0, total_timeout=3600, env_extra=None, mem_limit_kb=None):
    """Run the replay binary over the case file.  A crash or a hang is attributed to the case
    named in the heartbeat file and becomes a finding; the run then resumes after it."""
    if os.path.exists(findings_path):
        os.remove(findings_path)
    start = 0
    aborted = []
    env = dict(ENV)
    if FOLLOWERS:
        env["DV_FOLLOWERS"] = FOLLOWERS
    env.update(env_extra or {})
    t_end = time.time() + total_timeout
    while True:
        cmd = [binary, cases_path, findings_path, "--from", str(start)]
        pre = None
        if mem_limit_kb:
            import resource

            def pre():
                resource.setrlimit(resource.RLIMIT_AS, (mem_limit_kb * 1024, mem_limit_kb * 1024))
        proc = subprocess.Popen(cmd, env=env, stdout=subprocess.PIPE, stderr=subprocess.PIPE, preexec_fn=pre)
        cur_path = findings_path + ".cur"
        last_id, last_change = None, time.time()
        reason = None
        while True:
            try:
                proc.wait(timeout=0.25)
                break
            except subprocess.TimeoutExpired:
                pass
            try:
                cid = open(cur_path).read().strip()
            except OSError:
                cid = None
            now = time.time()
            if cid != last_id:
                last_id, last_change = cid, now
            elif now - last_change > case_timeout:
                reason = "timeout"
                proc.kill()
                proc.wait()
                break
            if now > t_end:
                proc.kill()
                raise ToolError("replay run exceeded its total budget")
        err = proc.stderr.read().decode(errors="replace")
        if reason is None and proc.returncode == 0:
            break
        if reason is None and proc.returncode == 2:
            raise ToolError("runner usage/tool error: " + err[-2000:])
        try:
            cid = int(open(cur_path).read().strip())
        except (OSError, ValueError):
            raise ToolError("runner died (exit %s) without a current case: %s" % (proc.returncode, err[-2000:]))
        what = reason or ("abort(exit %s)" % proc.returncode)
        if proc.returncode == 3 and reason is None:
            aborted.append(None)      # the runner's own watchdog recorded the hang
        else:
            aborted.append({"case": cid, "check": "process", "props": ["C05"],
                            "detail": {"what": what, "stderr": err[-600:]}})
            with open(findings_path, "a") as f:
                f.write(json.dumps(aborted[-1]) + "\n")
        start = cid + 1
        if start >= n_cases or len(aborted) > 200:
            break
    findings, notes, summary = [], [], {"cases": 0, "counts": {}, "skipped": {}}
    per_pid = {}
    with open(findings_path) as f:
        for ln in f:
            ln = ln.strip()
            if not ln:
                continue
            j = json.loads(ln)
            if j.get("summary"):
                per_pid[j.get("pid", 0)] = j       # the last (partial or final) summary of each process
            elif "note" in j:
                notes.append(j)
            else:
                findings.append(j)
    for j in per_pid.values():
        summary["cases"] += j["cases"]
        for k, v in j["counts"].items():
            summary["counts"][k] = summary["counts"].get(k, 0) + v
        for k, v in j["skipped"].items():
            summary["skipped"][k] = summary["skipped"].get(k, 0) + v
    return findings, notes, summary


# ----------------------------------------------------------------------------- verdicts

def load_known():
    p = os.path.join(ROOT, "known_findings.json")
    try:
        return json.load(open(p))
    except FileNotFoundError:
        return {"known": [], "fixed": []}


def match_known(pid, finding, case, known):
    """A finding is suppressed only if a listed known finding for this property matches it."""
    for k in known.get("known", []):
        if k["property"] != pid:
            continue
        m = k["match"]
        ok = True
        if "check" in m and finding.get("check") not in m["check"]:
            ok = False
        if "case_class" in m and (case or {}).get("class") not in m["case_class"]:
            ok = False
        if "witness" in m and (case or {}).get("witness") not in m["witness"]:
            ok = False
        if ok:
            return k
    return None


def write_replay(pid, finding, case, tier):
    os.makedirs(REPLAYS, exist_ok=True)
    blob = json.dumps({"property": pid, "tier": tier, "seed": seed(), "finding": finding, "case": case}, sort_keys=True)
    h = hashlib.sha1(blob.encode()).hexdigest()[:12]
    path = os.path.join(REPLAYS, "%s-%s.json" % (pid, h))
    tmp = path + ".tmp%d" % os.getpid()
    with open(tmp, "w") as f:
        f.write(blob + "\n")
    os.replace(tmp, path)
    return path


def write_evidence(pid, tier, level, coverage, assumptions, wall, violations):
    os.makedirs(EVID, exist_ok=True)
    ev = {"property_id": pid, "tier": tier, "seed": seed(), "level": level, "coverage": coverage,
          "assumptions": assumptions, "wall_s": round(wall, 1), "violations": violations}
    path = os.path.join(EVID, pid + ".json")
    tmp = path + ".tmp%d" % os.getpid()
    with open(tmp, "w") as f:
        json.dump(ev, f, indent=1, sort_keys=True)
        f.write("\n")
    os.replace(tmp, path)
    return path


def conclude(pid, tier, findings, cases_by_id, level, coverage, assumptions, t0):
    """Print KNOWN-FINDING / VIOLATION lines, write evidence, return exit code."""
    known = load_known()
    mine = [f for f in findings if pid in f.get("props", [])]
    # behaviour the specification covers beyond the listed properties: reported, never a verdict
    extra = [f for f in findings if any(p.startswith("X-") for p in f.get("props", []))]
    for f in extra[:5]:
        print("NOTE: outside the listed properties, implementation and specification differ (%s): %s" % (
            ",".join(f.get("props", [])), json.dumps(f.get("detail"))[:400]))
    coverage = dict(coverage, extra_findings_outside_properties=len(extra))
    shown_known = set()
    violations = []
    for f in mine:
        case = cases_by_id.get(f.get("case"))
        k = match_known(pid, f, case, known)
        if k:
            if k["id"] not in shown_known:
                shown_known.add(k["id"])
                print("KNOWN-FINDING: property=%s %s" % (pid, k["what"]))
            continue
        violations.append((f, case))
    # known findings are listed even when this run's universe did not hit them? no: only when observed
    seen_keys = set()
    exit_code = 0
    for f, case in violations:
        key = (f.get("check"), json.dumps((case or {}).get("tid", (case or {}).get("class"))))
        if key in seen_keys and len(seen_keys) >= 1:
            continue
        seen_keys.add(key)
        path = write_replay(pid, f, case, tier)
        print("VIOLATION property=%s replay=%s" % (pid, path))
        log("  check=%s detail=%s" % (f.get("check"), json.dumps(f.get("detail"))[:600]))
        exit_code = 1
        if len(seen_keys) >= 10:
            break
    coverage = dict(coverage)
    coverage.setdefault("findings_total", len(mine))
    write_evidence(pid, tier, level, coverage, assumptions, time.time() - t0, len(violations))
    sys.stdout.flush()
    return exit_code
