SPECIFICATION Spec
INVARIANTS StoredInverts BlockValue BlockCut Corrupt EmitCases
CHECK_DEADLOCK FALSE
