SPECIFICATION Spec
INVARIANT EmitPrograms
CHECK_DEADLOCK FALSE
CONSTANT MaxLen = 6
