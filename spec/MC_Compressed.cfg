SPECIFICATION Spec
INVARIANTS FrameSelfDelimiting FramePrefixRejected FirstRequestBounded
CHECK_DEADLOCK FALSE
