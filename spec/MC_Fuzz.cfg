SPECIFICATION Spec
INVARIANTS DecTotal AcceptedIsStable EmitCases
CHECK_DEADLOCK FALSE
CONSTANTS
 MaxLen = 3
 Dedup = FALSE
