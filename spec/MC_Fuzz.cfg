SPECIFICATION Spec
INVARIANTS DecTotal AcceptedIsStable EmitCases
CHECK_DEADLOCK FALSE
CONSTANT MaxLen = 3
