SPECIFICATION Spec
INVARIANTS RoundTrip NoRepeatNoCost FirstPlainRepeatBackref UnknownIdErr EmitCases
CHECK_DEADLOCK FALSE
CONSTANT MaxW = 3
