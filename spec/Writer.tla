------------------------------- MODULE Writer -------------------------------
(***************************************************************************)
(* Mechanism layer of the writer: the SerializationContext as a state       *)
(* machine - the final sink (only its length matters here), a stack of      *)
(* buffers that capture what is written while a field of an evolved record  *)
(* is being serialised, and a stack of open records (AdtSerializer).        *)
(*                                                                         *)
(*   Write(n)       n bytes go to the top buffer, or to the sink when no    *)
(*                  buffer is open                                          *)
(*   Open(k, b)     a record with k evolution steps is opened (its version  *)
(*                  byte has been written); b: it has a header, i.e. k + 1  *)
(*                  chunks that start empty                                 *)
(*   Field(c)       a field of chunk c starts: the chunk written so far is  *)
(*                  pushed as the new top buffer                            *)
(*   EndField       the top buffer goes back to its chunk                   *)
(*   Finish         all fields done: the header is written next             *)
(*   HeaderDone     then the chunks, in order, one Write each               *)
(*   Close          the record is complete                                  *)
(*                                                                         *)
(* Conservation: every byte written into a chunk is written exactly once to *)
(* the enclosing buffer when the record is closed, in chunk order; nothing  *)
(* else reaches the sink.  `payload` counts the bytes written that are not  *)
(* such copies; at rest the sink holds exactly `payload` bytes.             *)
(***************************************************************************)
EXTENDS Integers, Sequences
VARIABLES out, bufs, frames, payload
vars == <<out, bufs, frames, payload>>

Frame(k, b, base) == [chunks |-> IF b THEN [i \in 1..(k + 1) |-> 0] ELSE <<>>, cur |-> 0, ph |-> "fields", next |-> 1, base |-> base, buffered |-> b]
Top == frames[Len(frames)]
SetTop(f) == [frames EXCEPT ![Len(frames)] = f]
Init == out = 0 /\ bufs = <<>> /\ frames = <<>> /\ payload = 0

\* a write that is the copy of chunk number Top.next into the enclosing buffer?
CopyingChunks == frames # <<>> /\ Top.ph = "chunks"
Grow(n) == IF bufs = <<>> THEN out' = out + n /\ UNCHANGED bufs
           ELSE bufs' = [bufs EXCEPT ![Len(bufs)] = @ + n] /\ UNCHANGED out
Write(n) == /\ Grow(n)
            /\ IF CopyingChunks
               THEN /\ Top.next <= Len(Top.chunks) /\ n = Top.chunks[Top.next] /\ Len(bufs) = Top.base
                    /\ frames' = SetTop([Top EXCEPT !.next = @ + 1]) /\ UNCHANGED payload
               ELSE payload' = payload + n /\ UNCHANGED frames
Open(k, b) == /\ frames' = Append(frames, Frame(k, b, Len(bufs))) /\ UNCHANGED <<out, bufs, payload>>
Field(c) == /\ frames # <<>> /\ Top.ph = "fields" /\ Top.cur = 0
            /\ IF Top.buffered
               THEN /\ c + 1 \in DOMAIN Top.chunks /\ Len(bufs) = Top.base
                    /\ bufs' = Append(bufs, Top.chunks[c + 1]) /\ frames' = SetTop([Top EXCEPT !.cur = c + 1])
               ELSE UNCHANGED <<bufs, frames>>
            /\ UNCHANGED <<out, payload>>
EndField == /\ frames # <<>> /\ Top.ph = "fields" /\ Top.cur # 0 /\ Len(bufs) = Top.base + 1
            /\ frames' = SetTop([Top EXCEPT !.chunks[Top.cur] = bufs[Len(bufs)], !.cur = 0])
            /\ bufs' = SubSeq(bufs, 1, Len(bufs) - 1) /\ UNCHANGED <<out, payload>>
Finish == /\ frames # <<>> /\ Top.ph = "fields" /\ Top.cur = 0
          /\ frames' = SetTop([Top EXCEPT !.ph = "header"]) /\ UNCHANGED <<out, bufs, payload>>
HeaderDone == /\ frames # <<>> /\ Top.ph = "header" /\ Top.buffered
              /\ frames' = SetTop([Top EXCEPT !.ph = "chunks"]) /\ UNCHANGED <<out, bufs, payload>>
Close == /\ frames # <<>>
         /\ IF Top.buffered THEN Top.ph = "chunks" /\ Top.next = Len(Top.chunks) + 1 ELSE Top.ph = "header"
         /\ frames' = SubSeq(frames, 1, Len(frames) - 1) /\ UNCHANGED <<out, bufs, payload>>

\* what the open records still owe to their enclosing buffers, and what sits in open buffers
RECURSIVE SumSeqN(_)
SumSeqN(s) == IF s = <<>> THEN 0 ELSE Head(s) + SumSeqN(Tail(s))
Pending(f) == IF ~f.buffered THEN 0 ELSE SumSeqN(SubSeq(f.chunks, f.next, Len(f.chunks))) - (IF f.cur # 0 THEN f.chunks[f.cur] ELSE 0)
RECURSIVE SumPending(_)
SumPending(fs) == IF fs = <<>> THEN 0 ELSE Pending(Head(fs)) + SumPending(Tail(fs))
\* every payload byte is in the sink, in an open buffer, or in a chunk that is still to be copied out
Conservation == out + SumSeqN(bufs) + SumPending(frames) = payload
\* buffers are open exactly for the fields in progress
Discipline == Len(bufs) = Len(SelectSeq(frames, LAMBDA f : f.cur # 0))
AtRest == frames = <<>> => (bufs = <<>> /\ out = payload)
=============================================================================
