SPECIFICATION Spec
INVARIANTS ReadBack EmitCases
CHECK_DEADLOCK FALSE
CONSTANT MaxOps = 2
