--------------------------- MODULE Trace_Compressed ---------------------------
(***************************************************************************)
(* Trace validation (implementation -> specification) for compressed       *)
(* blocks.  The harness records one event per frame the library wrote and  *)
(* one per read it performed:                                              *)
(*   {"ev":"frame","dlen":n,"total":len,"head":[first bytes]}              *)
(*   {"ev":"read","kind":"valid"|"cut"|"damaged","dlen":n,"frame":len,     *)
(*    "suffix":k,"ok":bool,"consumed":c,"produced":m,"maxreq":r}           *)
(*   {"ev":"stored","d":[content],"z":[payload]}   a frame written at      *)
(*    level 0: the payload is a stream of stored blocks whose value, by    *)
(*    Deflate!Inflate, is the content, and nothing follows the final block *)
(* Each event must be one the framing specification allows.                *)
(***************************************************************************)
EXTENDS Deflate, Json, IOUtils, TLC, Sequences
Rec == ndJsonDeserialize(IOEnv.TRACE)
VARIABLE l
Pair(n) == <<n \div P28, n % P28>>

FrameEvent(e) ==
  \* the header is the two minimal varints: true uncompressed length, true compressed length
  LET h1 == VarUW(Pair(e.dlen)) IN
  \E w \in 1..5 :
     LET zl == e.total - Len(h1) - w IN
     /\ zl >= 0 /\ Len(VarU(zl)) = w
     /\ SubSeq(e.head, 1, Len(h1) + w) = h1 \o VarU(zl)
ReadEvent(e) ==
  CASE e.kind = "valid" ->   \* a frame followed by a suffix: read back completely, exactly the frame consumed
         e.ok /\ e.consumed = e.frame /\ e.produced = e.dlen /\ AllocAllowed(e.maxreq, e.produced)
    [] e.kind = "cut" ->     \* a strict prefix of a frame: an error
         ~e.ok
    [] e.kind = "damaged" -> \* anything goes except an out-of-proportion reservation
         AllocAllowed(e.maxreq, e.produced)
StoredEvent(e) == LET r == Inflate(e.z) IN r.ok /\ r.d = e.d /\ r.next = Len(e.z) + 1
Init == l = 1
Next == /\ l <= Len(Rec)
        /\ LET e == Rec[l] IN IF e.ev = "frame" THEN FrameEvent(e) ELSE IF e.ev = "stored" THEN StoredEvent(e) ELSE ReadEvent(e)
        /\ l' = l + 1
Spec == Init /\ [][Next]_l
\* accepted iff every event was consumed; otherwise print the first one the specification refuses
Accepted == IF TLCGet("stats").diameter - 1 = Len(Rec) THEN TRUE
            ELSE PrintT(<<"REJECTED", TLCGet("stats").diameter, Rec[TLCGet("stats").diameter]>>) /\ FALSE
=============================================================================
