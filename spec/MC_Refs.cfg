SPECIFICATION Spec
INVARIANTS GraphIso WrittenOnce TamperTotal OffersDistinct TablesIndependent EmitCases
CHECK_DEADLOCK FALSE
CONSTANT MaxN = 3
CONSTANT Big = {}
