SPECIFICATION Spec
INVARIANTS GraphIso WrittenOnce TamperTotal OffersDistinct EmitCases
CHECK_DEADLOCK FALSE
CONSTANT MaxN = 3
CONSTANT Big = {}
