SPECIFICATION Spec
INVARIANTS GraphIso WrittenOnce TamperTotal EmitCases
CHECK_DEADLOCK FALSE
CONSTANT MaxN = 3
CONSTANT Big = {}
