---------------------------- MODULE Trace_Writer ----------------------------
(***************************************************************************)
(* Trace validation of the writer mechanism (C02, C04): the events recorded *)
(* by the hooks in SerializationContext and AdtSerializer while a value is  *)
(* encoded must be a behaviour of Writer.tla:                               *)
(*   {"ev":"sctx"}                     a context is created                 *)
(*   {"ev":"w","n":n,"d":depth}        write_u8 / write_bytes               *)
(*   {"ev":"pushb","len":l,"d":depth}  push_buffer   {"ev":"popb",..} pop   *)
(*   {"ev":"anew","ver":k,"buf":0|1}   {"ev":"wf","chunk":c,"buf":b}        *)
(*   {"ev":"afin","nb":n} {"ev":"ahdr"} {"ev":"aend"}   AdtSerializer       *)
(*   {"ev":"wend","ok":1,"len":n}      the call returned n bytes            *)
(* An event that is not enabled in the model is a violation: bytes written  *)
(* to a buffer that is not on top, a chunk pushed with another length than  *)
(* it had when it was popped, chunks copied out with other lengths or in    *)
(* another order, a result whose length is not the payload.                 *)
(***************************************************************************)
EXTENDS Writer, Json, IOUtils, TLC
Rec == ndJsonDeserialize(IOEnv.TRACE)
VARIABLES l, viol
tvars == <<out, bufs, frames, payload, l, viol>>
Flag(cond, why) == IF viol = <<>> /\ ~cond THEN <<l, why>> ELSE viol
Same == UNCHANGED vars
TInit == Init /\ l = 1 /\ viol = <<>>

\* apply a Writer action when it is enabled, flag otherwise (the model then stays where it is)
Try(A, why) == IF ENABLED A THEN A /\ UNCHANGED viol ELSE Same /\ viol' = Flag(FALSE, why)

Ev(e) ==
  CASE e.ev = "sctx" -> /\ out' = 0 /\ bufs' = <<>> /\ frames' = <<>> /\ payload' = 0
                        /\ viol' = Flag(frames = <<>> /\ bufs = <<>>, "a new call starts while records or buffers of the previous one are open")
    [] e.ev = "w" -> IF e.d # Len(bufs) THEN Same /\ viol' = Flag(FALSE, "bytes are written while the buffer stack has another depth than the model's")
                     ELSE Try(Write(e.n), "a write that the state of the open record does not allow (chunk copied with another length / out of order)")
    [] e.ev = "anew" -> Try(Open(e.ver, e.buf = 1), "record opened")
    [] e.ev = "wf" -> Try(Field(e.chunk), "a field starts while another one is in progress / for a chunk the record does not have")
    [] e.ev = "pushb" -> Same /\ viol' = Flag(bufs # <<>> /\ e.len = bufs[Len(bufs)] /\ e.d = Len(bufs) - 1,
                                              "the chunk is pushed with another content length than it had when it was last popped")
    [] e.ev = "popb" -> IF bufs # <<>> /\ e.len = bufs[Len(bufs)] /\ e.d = Len(bufs)
                        THEN Try(EndField, "a buffer is popped that is not the field's")
                        ELSE Same /\ viol' = Flag(FALSE, "the popped buffer is not the top buffer of the model")
    [] e.ev = "afin" -> IF frames # <<>> /\ e.nb = Len(Top.chunks) THEN Try(Finish, "finish while a field is in progress")
                        ELSE Same /\ viol' = Flag(FALSE, "finish with another number of chunks than the record was opened with")
    [] e.ev = "ahdr" -> Try(HeaderDone, "header end outside a record with a header")
    [] e.ev = "aend" -> Try(Close, "the record is closed before all its chunks were copied out, in order")
    [] e.ev = "wend" -> Same /\ viol' = Flag(e.ok = 0 \/ (frames = <<>> /\ bufs = <<>> /\ out = e.len /\ out = payload),
                                             "at the end of the call records / buffers are still open or the result is not exactly the payload")
    [] OTHER -> Same /\ UNCHANGED viol

TNext == l <= Len(Rec) /\ Ev(Rec[l]) /\ l' = l + 1
TSpec == TInit /\ [][TNext]_tvars
Accepted == IF TLCGet("stats").diameter - 1 # Len(Rec)
            THEN PrintT(<<"SHAPE", TLCGet("stats").diameter, Rec[TLCGet("stats").diameter]>>) /\ FALSE ELSE TRUE
NoViolation == viol = <<>> \/ (PrintT(<<"REJECTED", viol[1], viol[2], Rec[viol[1]]>>) /\ FALSE)
=============================================================================
