------------------------------ MODULE MC_Utf8 ------------------------------
(***************************************************************************)
(* The two statements of UTF-8 well-formedness in Codec.tla - the          *)
(* recursive transcription of Unicode table 3-7 (Utf8From) and the         *)
(* left-to-right automaton that TLC folds in linear time (ValidUtf8) -     *)
(* agree on every string of up to four bytes over the bytes on both sides  *)
(* of every range limit of the table.                                      *)
(***************************************************************************)
EXTENDS Codec
Edge == {0, 127, 128, 143, 144, 159, 160, 191, 192, 193, 194, 223, 224, 225, 236, 237, 238, 239, 240, 241, 243, 244, 245, 255}
VARIABLE a
Init == a \in Edge \cup {-1}
Next == UNCHANGED a
Spec == Init /\ [][Next]_a
Strs == IF a = -1 THEN {<<>>} ELSE UNION {[1..n -> Edge] : n \in 0..3}
Same == \A t \in Strs : LET s == IF a = -1 THEN t ELSE <<a>> \o t IN ValidUtf8(s) = Utf8From(s, 1)
=============================================================================
