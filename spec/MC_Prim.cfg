SPECIFICATION Spec
INVARIANTS CursorSane EmitCases
CHECK_DEADLOCK FALSE
CONSTANTS
 MaxOps = 2
 MaxLen = 3
