------------------------------ MODULE Universe ------------------------------
(***************************************************************************)
(* The bounded universe the model checker ranges over: type expressions    *)
(* over the built-in vocabulary up to a nesting depth, subject to Rust's   *)
(* trait side conditions, and boundary values of each type.                *)
(***************************************************************************)
EXTENDS Codec

K(k) == [k |-> k]
U8 == K("u8")
STR == K("str")

IntLeaves == {"u8", "i8", "u16", "i16", "u32", "i32", "u64", "i64", "u128", "i128"}
ChronoLeaves == {"weekday", "month", "foffset", "tz", "ndate", "ntime", "ndt", "dtutc", "dtlocal", "dtfixed", "dttz"}
LeafKinds == IntLeaves \cup {"f32", "f64", "bool", "unit", "char", "str", "duration", "uuid",
                             "bigint", "bigdec", "bytes", "vecu8"} \cup ChronoLeaves
Leaves == {K(k) : k \in LeafKinds} \cup {[k |-> "arru8", n |-> n] : n \in {0, 1, 3}}
\* one representative per encoding shape: 1 byte, wide fixed, variable length, empty, byte run, tagged
RepLeaves == {U8, K("u16"), STR, K("unit"), K("bool"), K("vecu8")}

\* Rust side conditions
RECURSIVE Hashable(_)
Hashable(T) ==
  /\ T.k \notin {"f32", "f64", "hset", "hmap"}
  /\ (T.k \in {"opt", "vec", "list", "bset", "arr", "phantom"} \cup Transparent => Hashable(T.e))
  /\ (T.k \in {"res", "bmap"} => Hashable(T.a) /\ Hashable(T.b))
  /\ (T.k = "tup" => \A i \in 1..Len(T.es) : Hashable(T.es[i]))
\* keys of sets and maps: the model needs its order, Rust needs Eq + Hash / Ord
KeyOk(T) == Orderable(T) /\ Hashable(T)

UnaryKinds == {"opt", "box", "rc", "arc", "vec", "list", "hset", "bset", "phantom"}
Unary(S) ==
  {[k |-> u, e |-> t] : u \in {"opt", "box", "rc", "arc", "phantom"}, t \in S}
  \cup {[k |-> "vec", e |-> t] : t \in S \ {U8}}      \* Vec<u8> is the byte-run kind "vecu8"
  \cup {[k |-> "list", e |-> t] : t \in {x \in S : Hashable(x)}}
  \cup {[k |-> u, e |-> t] : u \in {"hset", "bset"}, t \in {x \in S : KeyOk(x)}}
  \cup {[k |-> "arr", n |-> n, e |-> t] : n \in {0, 1, 3}, t \in S \ {U8}}
  \cup {[k |-> "tup", es |-> <<t>>] : t \in S}
Binary(A, B) ==
  {[k |-> "res", a |-> x, b |-> y] : x \in A, y \in B}
  \cup {[k |-> "tup", es |-> <<x, y>>] : x \in A, y \in B}
  \cup {[k |-> m, a |-> x, b |-> y] : m \in {"hmap", "bmap"}, x \in {t \in A : KeyOk(t)}, y \in B}
\* tuples of arity 3 .. 8 over a cyclic choice of leaves
Cyc == <<U8, STR, K("bool"), K("u16"), K("unit"), K("vecu8"), K("i64"), K("char")>>
WideTuples == {[k |-> "tup", es |-> [i \in 1..n |-> Cyc[((i + o) % 8) + 1]]] : n \in 3..8, o \in {0, 3}}

Depth1 == Leaves
Depth2 == Depth1 \cup Unary(Leaves) \cup Binary(RepLeaves, RepLeaves) \cup WideTuples
\* pairwise nesting of constructors over three leaves
Mid == Unary({U8, STR, K("unit")}) \cup Binary({U8, STR}, {STR, K("unit")})
Depth3 == Depth2 \cup Unary(Mid) \cup Binary(Mid, {U8}) \cup Binary({STR}, Mid)
\* a wider third level (every constructor over every representative leaf, then every constructor again)
\* and a fourth level over two leaves
Mid6 == Unary(RepLeaves) \cup Binary(RepLeaves, {U8, STR})
Deep == Unary(Unary(Unary({U8, STR}) \cup Binary({U8}, {STR})))
Depth4 == Depth3 \cup Unary(Mid6) \cup Binary(Mid6, {STR}) \cup Binary({U8}, Mid6) \cup Deep
TypesAt(d) == IF d <= 1 THEN Depth1 ELSE IF d = 2 THEN Depth2 ELSE IF d = 3 THEN Depth3 ELSE Depth4

-----------------------------------------------------------------------------
(* Boundary values, as sequences (deterministic order) *)
Z(n) == [i \in 1..n |-> 0]
FF(n) == [i \in 1..n |-> 255]
Cnt(n) == [i \in 1..n |-> i]
FixedVals(w) ==
  IF w = 1 THEN <<<<0, 0>>, <<0, 1>>, <<0, 127>>, <<0, 128>>, <<0, 255>>>>
  ELSE <<<<0>> \o Z(w), <<0>> \o Z(w - 1) \o <<1>>, <<0>> \o FF(w), <<0, 128>> \o Z(w - 1),
         <<0, 127>> \o FF(w - 1), <<0>> \o Cnt(w)>>
X64 == [i \in 1..64 |-> 120]
SV(t) == <<3>> \o t
\* (incl. text that tools like to "clean up": a leading byte order mark U+FEFF, NUL, the last BMP character U+FFFF)
StrVals == <<SV(<<>>), SV(<<97>>), SV(<<98>>), SV(<<195, 169>>), SV(<<226, 130, 172>>), SV(<<240, 159, 152, 128>>),
             SV(<<239, 187, 191, 97>>), SV(<<239, 187, 191>>), SV(<<0>>), SV(<<97, 0, 239, 191, 191>>), SV(X64)>>
DateVals == <<<<12, 1970, 1, 1>>, <<12, 2024, 2, 29>>, <<12, 0, 1, 1>>, <<12, -1, 12, 31>>,
              <<12, 262142, 12, 31>>, <<12, -262143, 1, 1>>, <<12, 9999, 12, 31>>>>
TimeVals == <<<<13, 0, 0, 0, 0>>, <<13, 23, 59, 59, 999999999>>, <<13, 23, 59, 59, 1999999999>>,
              <<13, 12, 30, 15, 1>>, <<13, 1, 2, 3, 128>>>>
NdtVals == <<<<14, DateVals[1], TimeVals[1]>>, <<14, DateVals[2], TimeVals[2]>>, <<14, DateVals[4], TimeVals[4]>>,
             <<14, DateVals[7], TimeVals[3]>>, <<14, DateVals[3], TimeVals[5]>>>>
NdtExtreme == <<<<14, DateVals[5], TimeVals[2]>>, <<14, DateVals[6], TimeVals[1]>>>>
OffVals == <<<<11, 0>>, <<11, 3600>>, <<11, -3600>>, <<11, 86399>>, <<11, -86399>>, <<11, 1>>>>
ZoneSeq == <<SV(<<85, 84, 67>>),
             SV(<<69, 117, 114, 111, 112, 101, 47, 66, 117, 100, 97, 112, 101, 115, 116>>),
             SV(<<65, 109, 101, 114, 105, 99, 97, 47, 78, 101, 119, 95, 89, 111, 114, 107>>),
             SV(<<65, 115, 105, 97, 47, 75, 111, 108, 107, 97, 116, 97>>)>>
\* 2024-11-03 05:30:00 UTC is inside the repeated hour of America/New_York
FoldNdt == <<14, <<12, 2024, 11, 3>>, <<13, 5, 30, 0, 0>>>>
DecimalSeq == <<SV(<<48>>), SV(<<49>>), SV(<<45, 49>>), SV(<<48, 46, 53>>), SV(<<45, 49, 50, 46, 55, 53>>),
                SV(<<49, 50, 51, 52, 53, 54, 55, 56, 57, 48, 49, 50, 51, 52, 53, 54, 55, 56, 57, 48, 49, 50, 51, 52, 53, 54, 55, 56, 57, 48>>),
                SV(<<49, 69, 45, 49, 48, 48>>), SV(<<49, 101, 43, 49, 48, 48>>), SV(<<48, 46, 48, 48, 48, 48, 48, 49>>),
                \* the scale is part of the value: trailing zeros stay (1.50, 0.00, 100, 2.500)
                SV(<<49, 46, 53, 48>>), SV(<<48, 46, 48, 48>>), SV(<<49, 48, 48>>), SV(<<50, 46, 53, 48, 48>>)>>
B9(t) == <<9>> \o t
NanosMax == <<59, 154, 201, 255>>    \* 999 999 999

LeafVals(T) ==
  CASE T.k \in {"u8", "i8"} -> FixedVals(1)
    [] T.k \in {"u16", "i16"} -> FixedVals(2)
    [] T.k \in {"u32", "i32"} -> FixedVals(4)
    [] T.k \in {"u64", "i64"} -> FixedVals(8)
    [] T.k \in {"u128", "i128"} -> FixedVals(16)
    [] T.k = "f32" -> FixedVals(4) \o <<<<0, 127, 192, 0, 1>>, <<0, 255, 192, 0, 0>>, <<0, 63, 128, 0, 0>>, <<0, 127, 128, 0, 0>>>>
    [] T.k = "f64" -> FixedVals(8) \o <<<<0, 127, 248, 0, 0, 0, 0, 0, 1>>, <<0, 255, 240, 0, 0, 0, 0, 0, 0>>, <<0, 63, 240, 0, 0, 0, 0, 0, 0>>>>
    [] T.k = "bool" -> <<<<1, 0>>, <<1, 1>>>>
    [] T.k = "unit" -> <<<<2>>>>
    [] T.k = "char" -> <<<<0, 0, 97>>, <<0, 0, 233>>, <<0, 32, 172>>, <<0, 215, 255>>, <<0, 224, 0>>, <<0, 255, 255>>, <<0, 0, 0>>>>
    [] T.k \in {"str", "dstr"} -> StrVals
    [] T.k = "duration" -> <<<<0>> \o Z(12), <<0>> \o Z(7) \o <<1>> \o NanosMax, <<0>> \o FF(8) \o NanosMax, <<0>> \o Z(11) \o <<1>>>>
    [] T.k = "uuid" -> <<<<0>> \o Z(16), <<0>> \o Cnt(16), <<0>> \o FF(16)>>
    [] T.k = "weekday" -> <<<<0, 1>>, <<0, 7>>, <<0, 3>>>>
    [] T.k = "month" -> <<<<0, 1>>, <<0, 12>>, <<0, 6>>>>
    [] T.k = "foffset" -> OffVals
    [] T.k = "tz" -> ZoneSeq
    [] T.k = "ndate" -> DateVals
    [] T.k = "ntime" -> TimeVals
    [] T.k = "ndt" -> NdtVals \o NdtExtreme
    [] T.k = "dtlocal" -> NdtVals \o NdtExtreme
    [] T.k = "dtutc" -> <<<<0>> \o Z(12), <<0>> \o Z(7) \o <<1>> \o NanosMax, <<0>> \o FF(8) \o Z(4),
                          <<0, 0, 0, 0, 0, 128, 0, 0, 0, 0, 0, 0, 5>>, <<0, 255, 255, 255, 255, 0, 0, 0, 0, 0, 0, 1, 0>>>>
    [] T.k = "dtfixed" -> <<<<15, NdtVals[1], OffVals[1]>>, <<15, NdtVals[2], OffVals[4]>>, <<15, NdtVals[3], OffVals[5]>>,
                            <<15, NdtVals[4], OffVals[2]>>, <<15, NdtVals[5], OffVals[3]>>,
                            \* the last / first representable instants, one second inside the range
                            <<15, <<14, DateVals[5], <<13, 23, 59, 59, 999999999>>>>, <<11, 1>>>>,
                            <<15, <<14, DateVals[6], <<13, 0, 0, 0, 0>>>>, <<11, -1>>>>>>
    [] T.k = "dttz" -> <<<<16, NdtVals[1], ZoneSeq[1]>>, <<16, NdtVals[2], ZoneSeq[2]>>, <<16, FoldNdt, ZoneSeq[3]>>,
                         <<16, NdtVals[3], ZoneSeq[4]>>, <<16, NdtVals[5], ZoneSeq[3]>>,
                         <<16, NdtExtreme[1], ZoneSeq[1]>>, <<16, NdtExtreme[2], ZoneSeq[1]>>>>
    [] T.k = "bigint" -> <<B9(<<0>>), B9(<<1>>), B9(<<255>>), B9(<<127>>), B9(<<0, 128>>), B9(<<128>>), B9(<<255, 127>>),
                           B9(<<1, 0, 0, 0, 0, 0, 0, 0, 0>>), B9(<<255>> \o Z(16))>>
    [] T.k = "bigdec" -> DecimalSeq
    [] T.k \in {"bytes", "vecu8"} -> <<B9(<<>>), B9(<<0>>), B9(<<255, 1>>), B9([i \in 1..128 |-> 7])>>
    [] T.k = "arru8" -> IF T.n = 0 THEN <<B9(<<>>)>> ELSE IF T.n = 1 THEN <<B9(<<0>>), B9(<<255>>)>>
                        ELSE <<B9(<<0, 0, 0>>), B9(<<1, 2, 3>>), B9(<<255, 128, 127>>)>>

IsLeaf(T) == T.k \in LeafKinds \cup {"arru8", "dstr"}

\* first n elements of a sequence
Take(s, n) == SubSeq(s, 1, Min(n, Len(s)))
Last(s) == s[Len(s)]

\* values of the recursive declarations
NamedVals(name) ==
  CASE name = "RecList" -> <<<<20, <<0, 1>>, <<4>>>>,
                             <<20, <<0, 1>>, <<5, <<20, <<0, 2>>, <<5, <<20, <<0, 3>>, <<4>>>>>>>>>>>>>>
    [] name = "RecTree" -> <<<<20, <<0, 1>>, <<8>>>>,
                             <<20, <<0, 1>>, <<8, <<20, <<0, 2>>, <<8>>>>, <<20, <<0, 3>>, <<8, <<20, <<0, 4>>, <<8>>>>>>>>>>>>>>
    [] name = "Throwable" -> <<<<20, <<3, 69>>, <<3, 109>>, <<8>>, <<4>>>>,
                               <<20, <<3, 69>>, <<3>>, <<8, <<10, <<5, <<3, 67>>>>, <<4>>, <<5, <<3, 102>>>>, <<17, 0, 5210>>>>>>,
                                 <<5, <<20, <<3, 73>>, <<3, 112>>, <<8>>, <<4>>>>>>>>>>
    [] name = "RecEnum" -> <<<<21, 1, <<0, 1>>>>,
                             <<21, 2, <<21, 1, <<0, 1>>>>, <<21, 2, <<21, 1, <<0, 2>>>>, <<21, 1, <<0, 3>>>>>>>>>>

RECURSIVE VS(_)
\* one value per component position: the i-th choice
TupVal(Ts, pick(_)) == <<10>> \o [i \in 1..Len(Ts) |-> pick(VS(Ts[i]))]
VS(T) ==
  IF IsLeaf(T) THEN LeafVals(T)
  ELSE CASE T.k \in Transparent -> Take(VS(T.e), 4)
    [] T.k = "phantom" -> <<<<2>>>>
    [] T.k = "opt" -> <<<<4>>>> \o [i \in 1..Min(3, Len(VS(T.e))) |-> <<5, VS(T.e)[i]>>]
    [] T.k = "res" -> [i \in 1..Min(2, Len(VS(T.a))) |-> <<6, VS(T.a)[i]>>]
                      \o [i \in 1..Min(2, Len(VS(T.b))) |-> <<7, VS(T.b)[i]>>]
    [] T.k = "tup" -> <<TupVal(T.es, LAMBDA s : s[1]), TupVal(T.es, LAMBDA s : Last(s)),
                        TupVal(T.es, LAMBDA s : s[Min(2, Len(s))])>>
    [] T.k \in {"vec", "list"} ->
         LET es == VS(T.e) a == es[1] z == Last(es) IN
         <<<<8>>, <<8, a>>, <<8, z>>, <<8, a, z>>, <<8, z, a, a>>>>
    [] T.k = "arr" ->
         LET es == VS(T.e) a == es[1] z == Last(es) IN
         IF T.n = 0 THEN <<<<8>>>> ELSE IF T.n = 1 THEN <<<<8, a>>, <<8, z>>>> ELSE <<<<8, a, a, a>>, <<8, z, a, z>>>>
    [] T.k \in SetKinds ->
         LET es == VS(T.e) a == es[1] z == Last(es) m == es[Min(2, Len(es))] IN
         <<<<8>>, <<8, a>>, <<8>> \o SortSet(T.e, <<a, z>>, <<>>), <<8>> \o SortSet(T.e, <<z, m, a>>, <<>>)>>
    [] T.k = "struct" ->
         <<<<20>> \o [i \in 1..Len(T.fields) |-> VS(T.fields[i].t)[1]],
           <<20>> \o [i \in 1..Len(T.fields) |-> Last(VS(T.fields[i].t))]>>
    [] T.k = "enum" ->
         [i \in 1..Len(T.variants) |->
            <<21, i>> \o [j \in 1..Len(T.variants[i].fields) |-> Last(VS(T.variants[i].fields[j].t))]]
    [] T.k = "named" -> NamedVals(T.name)
    [] T.k = "inchunk" -> [i \in 1..Min(2, Len(VS(T.e))) |-> <<20, <<0, 7>>, VS(T.e)[i], <<0, 9>>>>]
    [] T.k \in MapKinds ->
         LET ks == VS(T.a) vs == VS(T.b) a == ks[1] z == Last(ks) m == ks[Min(2, Len(ks))] x == vs[1] y == Last(vs) IN
         <<<<8>>, <<8, <<10, a, x>>>>, <<8>> \o SortMap(T.a, <<<<10, a, y>>, <<10, z, x>>>>, <<>>),
           <<8>> \o SortMap(T.a, <<<<10, z, y>>, <<10, m, x>>, <<10, a, y>>>>, <<>>)>>

\* the set of values explored for T
RECURSIVE SeqToSet(_)
SeqToSet(s) == {s[i] : i \in 1..Len(s)}
Vals(T) == SeqToSet(VS(T))

\* C07: what follows a value in a stream is usually the encoding of another value - the first and the last
\* boundary value of every leaf type (an encoded time zone, a string, a varint, a date ...) as suffixes
FollowerSuffixes == ({Encode(L, VS(L)[1]).b : L \in Leaves} \cup {Encode(L, Last(VS(L))).b : L \in Leaves}) \ {<<>>}

\* does the type involve a container whose iteration order is unspecified?
RECURSIVE HasHash(_)
HasHash(T) ==
  \/ T.k \in {"hset", "hmap"}
  \/ (T.k \in {"opt", "vec", "list", "bset", "arr", "phantom"} \cup Transparent /\ HasHash(T.e))
  \/ (T.k \in {"res", "bmap"} /\ (HasHash(T.a) \/ HasHash(T.b)))
  \/ (T.k = "hmap" /\ HasHash(T.b))
  \/ (T.k = "tup" /\ \E i \in 1..Len(T.es) : HasHash(T.es[i]))

\* all orderings of the items of a top-level hash container value (sizes <= 3)
Perms(s) == {p \in [1..Len(s) -> 1..Len(s)] : \A i, j \in 1..Len(s) : i # j => p[i] # p[j]}
OrderVariants(T, v) ==
  IF T.k \in {"hset", "hmap"} THEN {<<8>> \o [i \in 1..(Len(v) - 1) |-> v[p[i] + 1]] : p \in Perms(Tail(v))}
  ELSE {v}
=============================================================================
