SPECIFICATION TSpec
INVARIANT NoViolation
POSTCONDITION Accepted
CHECK_DEADLOCK FALSE
