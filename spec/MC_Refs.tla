------------------------------ MODULE MC_Refs ------------------------------
(***************************************************************************)
(* C10: all rooted directed graphs with at most MaxN nodes and ordered      *)
(* successor lists of length <= 2 (self-loops, diamonds, back-edges, shared *)
(* and duplicate successors), two labelings each.  One TLC state per graph. *)
(***************************************************************************)
EXTENDS Refs, Json
CONSTANT MaxN
VARIABLES n, succ
vars == <<n, succ>>

Lists(k) == {<<>>} \cup {<<x>> : x \in 1..k} \cup {<<x, y>> : x \in 1..k, y \in 1..k}
Init == n \in 1..MaxN /\ succ \in [1..n -> Lists(n)]
Next == UNCHANGED vars
Spec == Init /\ [][Next]_vars

A == <<97>>
B == <<98>>
Labelings == {[i \in 1..n |-> A], [i \in 1..n |-> IF i % 2 = 1 THEN A ELSE B]}
G(lab) == [n |-> n, label |-> lab, succ |-> succ]

\* decode(encode(g)) is g up to renaming: shared stay shared, distinct stay distinct
GraphIso == \A lab \in Labelings : LET e == EncGraph(G(lab)) d == DecGraph(e.b) IN
              d.ok /\ d.g = Canon(G(lab)) /\ d.p = Len(e.b) + 1
\* every reachable object is written exactly once, ids are first-encounter numbers in pre-order
WrittenOnce == \A lab \in Labelings : LET e == EncGraph(G(lab)) IN
              /\ e.tab = Order(G(lab))
              /\ Len(e.tab) = Cardinality(Reachable(G(lab)))
              /\ \A i, j \in 1..Len(e.tab) : i # j => e.tab[i] # e.tab[j]
\* citing an object number that was not introduced yet is an error: rewrite each byte
\* of the stream to tablesize + 1 and + 2; whenever the reader then reaches a reference
\* beyond the objects introduced so far the result is BadRefId (or another error)
TamperVals(e) == {Len(e.tab) + 1, Len(e.tab) + 2}
Tampered(e) == {<<i, a>> : i \in 1..Len(e.b), a \in TamperVals(e)}
Verdict(b) == LET d == DecGraph(b) IN IF d.ok THEN <<"ok", d.g, d.p - 1>> ELSE <<"err", d.err>>
TamperTotal == \A lab \in Labelings : LET e == EncGraph(G(lab)) IN
                 \A t \in Tampered(e) : Verdict([e.b EXCEPT ![t[1]] = t[2]])[1] \in {"ok", "err"}

Case(lab) == LET e == EncGraph(G(lab)) IN
  [g |-> G(lab), b |-> e.b, canon |-> Canon(G(lab)),
   tampers |-> {<<t[1], t[2], Verdict([e.b EXCEPT ![t[1]] = t[2]])>> : t \in Tampered(e)}]
EmitCases == PrintT(<<"REPLAY", ToJson([cases |-> {Case(lab) : lab \in Labelings}])>>)
=============================================================================
