------------------------------ MODULE MC_Refs ------------------------------
(***************************************************************************)
(* C10: all rooted directed graphs with at most MaxN nodes and ordered      *)
(* successor lists of length <= 2 (self-loops, diamonds, back-edges, shared *)
(* and duplicate successors), two labelings each.  One TLC state per graph. *)
(* Big: chains of N nodes whose last node points back to node k, for k on   *)
(* both sides of the width changes of the object number (127 | 128,         *)
(* 255 | 256): the numbers of late objects take two bytes (seeded S30).     *)
(***************************************************************************)
EXTENDS Refs, Json
CONSTANTS MaxN, Big
VARIABLES n, succ
vars == <<n, succ>>

Lists(k) == {<<>>} \cup {<<x>> : x \in 1..k} \cup {<<x, y>> : x \in 1..k, y \in 1..k}
BackTargets(N) == {k \in {1, 2, 63, 64, 127, 128, 129, 255, 256, 257, N - 1, N} : k >= 1 /\ k <= N}
ChainSucc(N, k) == [i \in 1..N |-> IF i < N THEN <<i + 1>> ELSE <<k>>]
Init == \/ n \in 1..MaxN /\ succ \in [1..n -> Lists(n)]
        \/ \E N \in Big : \E k \in BackTargets(N) : n = N /\ succ = ChainSucc(N, k)
IsBig == n > MaxN
Next == UNCHANGED vars
Spec == Init /\ [][Next]_vars

A == <<97>>
B == <<98>>
Labelings == {[i \in 1..n |-> A], [i \in 1..n |-> IF i % 2 = 1 THEN A ELSE B]}
G(lab) == [n |-> n, label |-> lab, succ |-> succ]

\* decode(encode(g)) is g up to renaming: shared stay shared, distinct stay distinct
GraphIso == \A lab \in Labelings : LET e == EncGraph(G(lab)) d == DecGraph(e.b) IN
              d.ok /\ d.g = Canon(G(lab)) /\ d.p = Len(e.b) + 1
\* every reachable object is written exactly once, ids are first-encounter numbers in pre-order
WrittenOnce == \A lab \in Labelings : LET e == EncGraph(G(lab)) IN
              /\ e.tab = Order(G(lab))
              /\ Len(e.tab) = Cardinality(Reachable(G(lab)))
              /\ \A i, j \in 1..Len(e.tab) : i # j => e.tab[i] # e.tab[j]
\* citing an object number that was not introduced yet is an error: rewrite each byte
\* of the stream to tablesize + 1 and + 2; whenever the reader then reaches a reference
\* beyond the objects introduced so far the result is BadRefId (or another error)
TamperVals(e) == {Len(e.tab) + 1, Len(e.tab) + 2}
Tampered(e) == IF IsBig THEN {} ELSE {<<i, a>> : i \in 1..Len(e.b), a \in TamperVals(e)}
\* chains: the back-reference is the last item of the stream; it is replaced by other object numbers
BackRefLen == Len(VarU(succ[n][1]))
Tails(e) == IF ~IsBig THEN {} ELSE {VarU(x) : x \in {n - 1, n, n + 1, n + 2, 127, 128, 16384}}
Verdict(b) == LET d == DecGraph(b) IN IF d.ok THEN <<"ok", d.g, d.p - 1>> ELSE <<"err", d.err>>
TamperTotal == \A lab \in Labelings : LET e == EncGraph(G(lab)) IN
                 /\ \A t \in Tampered(e) : Verdict([e.b EXCEPT ![t[1]] = t[2]])[1] \in {"ok", "err"}
                 \* a chain whose last item cites object x: the object itself when it exists, BadRefId beyond the table
                 /\ \A x \in {n + 1, n + 2, 16384} : IsBig =>
                      Verdict(SubSeq(e.b, 1, Len(e.b) - BackRefLen) \o VarU(x)) = <<"err", "BadRefId">>

\* identity is the object, not its address: a record D, its first member H (same address, another type) and an
\* unrelated E are three objects; every sequence of up to four offers of them
Objs3 == {"D", "H", "E"}
OfferSeqs == UNION {[1..k -> Objs3] : k \in 1..4}
RECURSIVE OfferBytes(_, _, _)
OfferBytes(s, i, tab) ==
  IF i > Len(s) THEN <<>>
  ELSE LET id == IdIn(tab, s[i]) IN
       IF id # 0 THEN VarU(id) \o OfferBytes(s, i + 1, tab) ELSE VarU(0) \o OfferBytes(s, i + 1, Append(tab, s[i]))
OffersDistinct == \A s \in OfferSeqs : Len(OfferBytes(s, 1, <<>>)) = Len(s)      \* at most 3 objects: one byte per offer
\* the object table and the string table of a stream are two tables: each numbers its own entries from 1 in
\* first-occurrence order, whatever the other one holds.  Every sequence of up to four writes over the three objects
\* and two deduplicated strings "s", "t" that holds at least one of each kind.
Strs2 == {"S", "T"}
StrBytes(x) == IF x = "S" THEN <<115>> ELSE <<116>>
MixSeqs == {s \in UNION {[1..k -> Objs3 \cup Strs2] : k \in 2..4} : (\E i \in 1..Len(s) : s[i] \in Strs2) /\ (\E i \in 1..Len(s) : s[i] \in Objs3)}
RECURSIVE MixBytes(_, _, _, _)
MixBytes(s, i, tab, st) ==
  IF i > Len(s) THEN <<>>
  ELSE IF s[i] \in Strs2
       THEN LET id == IdIn(st, s[i]) IN
            IF id # 0 THEN VarI(-id) \o MixBytes(s, i + 1, tab, st) ELSE EncStrBytes(StrBytes(s[i])) \o MixBytes(s, i + 1, tab, Append(st, s[i]))
       ELSE LET id == IdIn(tab, s[i]) IN
            IF id # 0 THEN VarU(id) \o MixBytes(s, i + 1, tab, st) ELSE VarU(0) \o MixBytes(s, i + 1, Append(tab, s[i]), st)
\* ... so removing the writes of one kind from a sequence removes their bytes and changes nothing else
Only(s, kind) == SelectSeq(s, LAMBDA x : x \in kind)
TablesIndependent == \A s \in MixSeqs :
   Len(MixBytes(s, 1, <<>>, <<>>)) = Len(MixBytes(Only(s, Objs3), 1, <<>>, <<>>)) + Len(MixBytes(Only(s, Strs2), 1, <<>>, <<>>))
Mixed == IF n = 1 /\ succ[1] = <<>> THEN {<<s, MixBytes(s, 1, <<>>, <<>>)>> : s \in MixSeqs} ELSE {}
Offers == IF n = 1 /\ succ[1] = <<>> THEN {<<s, OfferBytes(s, 1, <<>>)>> : s \in OfferSeqs} ELSE {}

\* sharing across the chunks of a record with a header: chunk 0 holds the graph, chunk 1 (an added field) is just a
\* reference to the k-th object of the graph - read at position 0 of its own region
CrossBytes(e, k) == LET c1 == VarU(k) IN <<1>> \o VarI(Len(e.b)) \o VarI(Len(c1)) \o e.b \o c1
CrossCases(e) == {<<k, CrossBytes(e, k)>> : k \in IF IsBig THEN {2, 127, 128, Len(e.tab)} \cap 1..Len(e.tab) ELSE 1..Len(e.tab)}

Case(lab) == LET e == EncGraph(G(lab)) IN
  [g |-> G(lab), b |-> e.b, canon |-> Canon(G(lab)),
   tampers |-> {<<t[1], t[2], Verdict([e.b EXCEPT ![t[1]] = t[2]])>> : t \in Tampered(e)},
   tails |-> {<<Len(e.b) - BackRefLen, t, Verdict(SubSeq(e.b, 1, Len(e.b) - BackRefLen) \o t)>> : t \in Tails(e)},
   cross |-> CrossCases(e)]
EmitCases == PrintT(<<"REPLAY", ToJson([cases |-> {Case(lab) : lab \in Labelings}, offers |-> Offers, mixed |-> Mixed])>>)
=============================================================================
