----------------------------- MODULE ReaderInt -----------------------------
(***************************************************************************)
(* Apalache: the region machine of Reader.tla over UNBOUNDED integers -     *)
(* any buffer length N, any read / skip size, any region parameters - with  *)
(* RegionInv proved INDUCTIVE:                                              *)
(*   apalache-mc check --init=Init    --inv=IndInv --length=0   (base)      *)
(*   apalache-mc check --init=IndInit --inv=IndInv --length=1   (step)      *)
(* (TLC explores the same machine for N <= 4 and depth <= 3 in MC_Reader.)  *)
(* The only bound left is the depth of the region stack that Apalache's     *)
(* sequence generator produces (MaxDepth); the step is the same at every    *)
(* depth because Push / Pop touch the top of the stack only.                *)
(***************************************************************************)
EXTENDS Integers, Sequences, Apalache
VARIABLES
  \* @type: Int;
  N,
  \* @type: { start: Int, pos: Int, end: Int };
  cur,
  \* @type: Seq({ start: Int, pos: Int, end: Int });
  stack,
  \* @type: <<Int, Int>>;
  lastRead

MaxDepth == 5

\* @type: (Int, Int, Int) => { start: Int, pos: Int, end: Int };
Region(s, p, e) == [start |-> s, pos |-> p, end |-> e]
\* @type: ({ start: Int, pos: Int, end: Int }) => Int;
Cursor(r) == r.start + r.pos
\* @type: ({ start: Int, pos: Int, end: Int }, Int) => Bool;
Fits(r, n) == Cursor(r) + n <= r.end

Init == N \in Nat /\ cur = Region(0, 0, N) /\ stack = <<>> /\ lastRead = <<0, 0>>
Read(n) == /\ n >= 0
           /\ IF Fits(cur, n) THEN cur' = [cur EXCEPT !.pos = @ + n] /\ lastRead' = <<Cursor(cur), n>>
              ELSE UNCHANGED <<cur, lastRead>>
           /\ UNCHANGED <<N, stack>>
\* @type: (Int, Int, Int, { start: Int, pos: Int, end: Int }) => Bool;
Inside(rs, rp, re, parent) == rs <= re /\ rp <= re - rs /\ parent.start + re <= parent.end /\ rs >= 0 /\ rp >= 0
Push(rs, rp, re) == /\ Inside(rs, rp, re, cur)
                    /\ Len(stack) < MaxDepth
                    /\ stack' = Append(stack, cur)
                    /\ cur' = Region(cur.start + rs, rp, cur.start + re)
                    /\ UNCHANGED <<N, lastRead>>
Pop == /\ Len(stack) > 0
       /\ cur' = stack[Len(stack)] /\ stack' = SubSeq(stack, 1, Len(stack) - 1)
       /\ UNCHANGED <<N, lastRead>>
Stutter == UNCHANGED <<N, cur, stack, lastRead>>
Next == \/ \E n \in Int : Read(n)
        \/ \E rs \in Int : \E rp \in Int : \E re \in Int : Push(rs, rp, re)
        \/ Pop
        \/ Stutter

\* @type: ({ start: Int, pos: Int, end: Int }) => Bool;
RegionOK(r) == r.start >= 0 /\ r.pos >= 0 /\ Cursor(r) <= r.end /\ r.end <= N
\* frame i of the stack lies inside frame i - 1; the current region lies inside the top of the stack
\* @type: ({ start: Int, pos: Int, end: Int }, { start: Int, pos: Int, end: Int }) => Bool;
Nested(inner, outer) == inner.start >= outer.start /\ inner.end <= outer.end
RegionInv ==
  /\ RegionOK(cur)
  /\ \A i \in DOMAIN stack : RegionOK(stack[i])
  /\ \A i \in DOMAIN stack : i > 1 => Nested(stack[i], stack[i - 1])
  /\ (Len(stack) > 0 => Nested(cur, stack[Len(stack)]))
ReadsInsideBuffer == lastRead[1] >= 0 /\ lastRead[2] >= 0 /\ lastRead[1] + lastRead[2] <= N
IndInv == N >= 0 /\ Len(stack) <= MaxDepth /\ RegionInv /\ ReadsInsideBuffer

\* an arbitrary state satisfying the invariant
IndInit ==
  /\ N = Gen(1) /\ cur = Gen(1) /\ stack = Gen(MaxDepth) /\ lastRead = Gen(1)
  /\ IndInv
=============================================================================
