SPECIFICATION Spec
INVARIANTS RoundTrip SelfDelimiting PrefixRejected AltPrefixRejected FormsDecode OrderIrrelevant EmitCases
CHECK_DEADLOCK FALSE
CONSTANTS
 Depth = 2
 ExtraDepth = 0
 SampleMod = 1
 SamplePhase = 0
