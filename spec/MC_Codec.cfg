SPECIFICATION Spec
INVARIANTS RoundTrip SelfDelimiting PrefixRejected FormsDecode OrderIrrelevant EmitCases
CHECK_DEADLOCK FALSE
CONSTANT Depth = 2
