------------------------------ MODULE MC_Deep ------------------------------
(***************************************************************************)
(* The depth and count axis of C01 / C02 / C04 / C05: values nested d       *)
(* levels deep through recursive declarations - without a header            *)
(* (RecList, RecEnum) and with a header at every level (RecEvo, RecTree:    *)
(* one chunk region stays open per level) - and collections holding n       *)
(* smart-pointer elements.  The other universes nest at most four levels    *)
(* and hold at most four elements, so a fixed-capacity stack or a counter   *)
(* that is not restored (seeded S38, S42) stayed invisible.  Far below      *)
(* these depths nothing in the format or the documentation sets a limit;    *)
(* the process stack does, at depths several orders of magnitude larger     *)
(* (DESIGN 7, D15).  One TLC state per (family, depth).                     *)
(***************************************************************************)
EXTENDS Universe, Json
CONSTANTS Depths, Counts
VARIABLES fam, d
vars == <<fam, d>>
RecFams == {"RecList", "RecEvo", "RecTree", "RecEnum", "RecEvoAsList"}     \* the last one: written by RecEvo, read by its version 0 (= RecList)
PtrFams == {"arc", "rc", "box"}
Init == \/ fam \in RecFams /\ d \in Depths
        \/ fam \in PtrFams /\ d \in Counts
Next == UNCHANGED vars
Spec == Init /\ [][Next]_vars

RECURSIVE ListV(_), EvoV(_), TreeV(_), EnumV(_)
ListV(n) == <<20, <<0, n % 256>>, IF n = 1 THEN <<4>> ELSE <<5, ListV(n - 1)>>>>
EvoV(n) == <<20, <<0, n % 256>>, IF n = 1 THEN <<4>> ELSE <<5, EvoV(n - 1)>>, <<0, (7 * n) % 256>>>>
TreeV(n) == <<20, <<0, n % 256>>, IF n = 1 THEN <<8>> ELSE <<8, TreeV(n - 1)>>>>
EnumV(n) == IF n = 1 THEN <<21, 1, <<0, 1>>>> ELSE <<21, 2, <<21, 1, <<0, n % 256>>>>, EnumV(n - 1)>>
U32V(i) == <<0, 0, 0, (i \div 256) % 256, i % 256>>
T == IF fam = "RecEvoAsList" THEN NamedT("RecEvo") ELSE IF fam \in RecFams THEN NamedT(fam) ELSE [k |-> "vec", e |-> [k |-> fam, e |-> K("u32")]]
V == CASE fam = "RecList" -> ListV(d) [] fam \in {"RecEvo", "RecEvoAsList"} -> EvoV(d) [] fam = "RecTree" -> TreeV(d) [] fam = "RecEnum" -> EnumV(d)
       [] OTHER -> <<8>> \o [i \in 1..d |-> U32V(i)]
E == Encode(T, V)
RoundTrip == E.ok /\ LET r == Decode(T, E.b) IN r.ok /\ r.v = V /\ r.p = Len(E.b) + 1
\* the older definition skips the added field at every level
OldReader == fam = "RecEvoAsList" => LET r == Decode(NamedT("RecList"), E.b) IN r.ok /\ r.v = ListV(d) /\ r.p = Len(E.b) + 1
EmitCases == PrintT(<<"REPLAY", ToJson([fam |-> fam, d |-> d, b |-> E.b])>>)
=============================================================================
