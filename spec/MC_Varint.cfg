SPECIFICATION Spec
INVARIANTS UnsignedOK Lenient SignedOK EmitOnce
CHECK_DEADLOCK FALSE
