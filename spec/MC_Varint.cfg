SPECIFICATION Spec
INVARIANTS UnsignedOK Lenient SignedOK InContext EmitOnce
CHECK_DEADLOCK FALSE
