-------------------------------- MODULE Calls --------------------------------
(***************************************************************************)
(* C18: top-level calls are isolated and deterministic, also across        *)
(* threads.  The only process-wide state of the library is the lazily      *)
(* initialised per-type metadata (a std Once per type); string and object  *)
(* tables belong to the context created by each call.                      *)
(*                                                                         *)
(* Each thread runs a program of calls [ty, arg]; arg is a sequence of     *)
(* strings written through the call's string table (that is where leaked   *)
(* state would show).  A call takes several steps - Begin (fresh context), *)
(* Acquire / InitMeta (the Once protocol: uninit -> busy -> ready, others   *)
(* wait), one Body step per table operation, End - so that every           *)
(* interleaving of first use and steady state is explored.                 *)
(*                                                                         *)
(* SharedTable = TRUE models the defect "the table lives in process-wide    *)
(* state": the checker must then find ResultIndependent violated (guard     *)
(* against vacuity).  NoOnce = TRUE models metadata built without Once.     *)
(***************************************************************************)
EXTENDS Integers, Sequences, FiniteSets, TLC
CONSTANTS Threads, Types, Progs, SharedTable, NoOnce

MetaOf(ty) == <<"metadata-of", ty>>
\* sequential meaning of one call on a fresh table
RECURSIVE EncStrs(_, _)
EncStrs(ss, tab) == IF ss = <<>> THEN <<>> ELSE
   LET s == Head(ss) IN
   IF \E i \in 1..Len(tab) : tab[i] = s
   THEN <<<<"ref", CHOOSE i \in 1..Len(tab) : tab[i] = s>>>> \o EncStrs(Tail(ss), tab)
   ELSE <<<<"plain", s>>>> \o EncStrs(Tail(ss), Append(tab, s))
Fresh(call) == <<call.ty, EncStrs(call.arg, <<>>), MetaOf(call.ty)>>

(* --algorithm Calls {
  variables meta = [ty \in Types |-> "uninit"],
            metaVal = [ty \in Types |-> <<>>],
            inits = [ty \in Types |-> 0],
            global = <<>>,                       \* used only when SharedTable
            out = [t \in Threads |-> <<>>];
  define {
    Call(t, i) == Progs[t][i]
  }
  fair process (thr \in Threads)
    variables idx = 1, ctx = <<>>, acc = <<>>, k = 1;
  {
    Begin:
      while (idx <= Len(Progs[self])) {
        ctx := <<>>; acc := <<>>; k := 1;
    Acquire:
        if (NoOnce) {
          if (meta[Call(self, idx).ty] = "ready") { goto Body } else { goto InitMeta }
        } else {
          either { await meta[Call(self, idx).ty] = "uninit";
                   meta[Call(self, idx).ty] := "busy";
                   goto InitMeta }
          or     { await meta[Call(self, idx).ty] = "ready";
                   goto Body }
        };
    InitMeta:
        metaVal[Call(self, idx).ty] := MetaOf(Call(self, idx).ty);
        inits[Call(self, idx).ty] := inits[Call(self, idx).ty] + 1;
        meta[Call(self, idx).ty] := "ready";
    Body:
        while (k <= Len(Call(self, idx).arg)) {
          with (s = Call(self, idx).arg[k], tab = IF SharedTable THEN global ELSE ctx) {
            if (\E i \in 1..Len(tab) : tab[i] = s) {
              acc := Append(acc, <<"ref", CHOOSE i \in 1..Len(tab) : tab[i] = s>>)
            } else {
              acc := Append(acc, <<"plain", s>>);
              if (SharedTable) { global := Append(global, s) } else { ctx := Append(ctx, s) }
            }
          };
          k := k + 1
        };
    End:
        out[self] := Append(out[self], <<Call(self, idx).ty, acc, metaVal[Call(self, idx).ty]>>);
        idx := idx + 1
      }
  }
} *)
\* BEGIN TRANSLATION
VARIABLES pc, meta, metaVal, inits, global, out

(* define statement *)
Call(t, i) == Progs[t][i]

VARIABLES idx, ctx, acc, k

vars == << pc, meta, metaVal, inits, global, out, idx, ctx, acc, k >>

ProcSet == (Threads)

Init == (* Global variables *)
        /\ meta = [ty \in Types |-> "uninit"]
        /\ metaVal = [ty \in Types |-> <<>>]
        /\ inits = [ty \in Types |-> 0]
        /\ global = <<>>
        /\ out = [t \in Threads |-> <<>>]
        (* Process thr *)
        /\ idx = [self \in Threads |-> 1]
        /\ ctx = [self \in Threads |-> <<>>]
        /\ acc = [self \in Threads |-> <<>>]
        /\ k = [self \in Threads |-> 1]
        /\ pc = [self \in ProcSet |-> "Begin"]

Begin(self) == /\ pc[self] = "Begin"
               /\ IF idx[self] <= Len(Progs[self])
                     THEN /\ ctx' = [ctx EXCEPT ![self] = <<>>]
                          /\ acc' = [acc EXCEPT ![self] = <<>>]
                          /\ k' = [k EXCEPT ![self] = 1]
                          /\ pc' = [pc EXCEPT ![self] = "Acquire"]
                     ELSE /\ pc' = [pc EXCEPT ![self] = "Done"]
                          /\ UNCHANGED << ctx, acc, k >>
               /\ UNCHANGED << meta, metaVal, inits, global, out, idx >>

Acquire(self) == /\ pc[self] = "Acquire"
                 /\ IF NoOnce
                       THEN /\ IF meta[Call(self, idx[self]).ty] = "ready"
                                  THEN /\ pc' = [pc EXCEPT ![self] = "Body"]
                                  ELSE /\ pc' = [pc EXCEPT ![self] = "InitMeta"]
                            /\ meta' = meta
                       ELSE /\ \/ /\ meta[Call(self, idx[self]).ty] = "uninit"
                                  /\ meta' = [meta EXCEPT ![Call(self, idx[self]).ty] = "busy"]
                                  /\ pc' = [pc EXCEPT ![self] = "InitMeta"]
                               \/ /\ meta[Call(self, idx[self]).ty] = "ready"
                                  /\ pc' = [pc EXCEPT ![self] = "Body"]
                                  /\ meta' = meta
                 /\ UNCHANGED << metaVal, inits, global, out, idx, ctx, acc, k >>

InitMeta(self) == /\ pc[self] = "InitMeta"
                  /\ metaVal' = [metaVal EXCEPT ![Call(self, idx[self]).ty] = MetaOf(Call(self, idx[self]).ty)]
                  /\ inits' = [inits EXCEPT ![Call(self, idx[self]).ty] = inits[Call(self, idx[self]).ty] + 1]
                  /\ meta' = [meta EXCEPT ![Call(self, idx[self]).ty] = "ready"]
                  /\ pc' = [pc EXCEPT ![self] = "Body"]
                  /\ UNCHANGED << global, out, idx, ctx, acc, k >>

Body(self) == /\ pc[self] = "Body"
              /\ IF k[self] <= Len(Call(self, idx[self]).arg)
                    THEN /\ LET s == Call(self, idx[self]).arg[k[self]] IN
                              LET tab == IF SharedTable THEN global ELSE ctx[self] IN
                                IF \E i \in 1..Len(tab) : tab[i] = s
                                   THEN /\ acc' = [acc EXCEPT ![self] = Append(acc[self], <<"ref", CHOOSE i \in 1..Len(tab) : tab[i] = s>>)]
                                        /\ UNCHANGED << global, ctx >>
                                   ELSE /\ acc' = [acc EXCEPT ![self] = Append(acc[self], <<"plain", s>>)]
                                        /\ IF SharedTable
                                              THEN /\ global' = Append(global, s)
                                                   /\ ctx' = ctx
                                              ELSE /\ ctx' = [ctx EXCEPT ![self] = Append(ctx[self], s)]
                                                   /\ UNCHANGED global
                         /\ k' = [k EXCEPT ![self] = k[self] + 1]
                         /\ pc' = [pc EXCEPT ![self] = "Body"]
                    ELSE /\ pc' = [pc EXCEPT ![self] = "End"]
                         /\ UNCHANGED << global, ctx, acc, k >>
              /\ UNCHANGED << meta, metaVal, inits, out, idx >>

End(self) == /\ pc[self] = "End"
             /\ out' = [out EXCEPT ![self] = Append(out[self], <<Call(self, idx[self]).ty, acc[self], metaVal[Call(self, idx[self]).ty]>>)]
             /\ idx' = [idx EXCEPT ![self] = idx[self] + 1]
             /\ pc' = [pc EXCEPT ![self] = "Begin"]
             /\ UNCHANGED << meta, metaVal, inits, global, ctx, acc, k >>

thr(self) == Begin(self) \/ Acquire(self) \/ InitMeta(self) \/ Body(self)
                \/ End(self)

(* Allow infinite stuttering to prevent deadlock on termination. *)
Terminating == /\ \A self \in ProcSet: pc[self] = "Done"
               /\ UNCHANGED vars

Next == (\E self \in Threads: thr(self))
           \/ Terminating

Spec == /\ Init /\ [][Next]_vars
        /\ \A self \in Threads : WF_vars(thr(self))

Termination == <>(\A self \in ProcSet: pc[self] = "Done")

\* END TRANSLATION

OnceOnly == \A ty \in Types : inits[ty] <= 1
ResultIndependent == \A t \in Threads : \A i \in 1..Len(out[t]) : out[t][i] = Fresh(Progs[t][i])
MetaStable == [][\A ty \in Types : meta[ty] = "ready" => metaVal'[ty] = metaVal[ty]]_vars
\* a call starts on an empty table
CtxFresh == \A t \in Threads : pc[t] = "Acquire" => ctx[t] = <<>> /\ acc[t] = <<>>
CallsTerminate == <>(\A t \in Threads : pc[t] = "Done")
=============================================================================
