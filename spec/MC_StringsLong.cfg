SPECIFICATION Spec
INVARIANTS RoundTrip Shape Beyond EmitCases
CHECK_DEADLOCK FALSE
CONSTANT Sizes = {130, 300}
CONSTANT ShapeOnly = {8200}
