------------------------------ MODULE MC_Long ------------------------------
(***************************************************************************)
(* The size axis of C01 / C04 / C07 / C08 / C15: values placed on both      *)
(* sides of every width change of a variable-length integer that the       *)
(* format writes - string and sequence lengths (zig-zag: 63 | 64,           *)
(* 8191 | 8192), byte-array lengths (127 | 128, 16383 | 16384), chunk sizes *)
(* in a record header, nanoseconds, years, offsets, bare var_u32 - for      *)
(* every place such an integer occurs.  The boundary-value universe of     *)
(* Universe.tla keeps lengths <= 128; a writer or size calculator that is   *)
(* wrong exactly at the second width change was invisible there (seeded     *)
(* change S31).  One TLC state per case; the line format is MC_Codec's.     *)
(***************************************************************************)
EXTENDS Universe, Json
VARIABLE c
LenV == {63, 64, 8191, 8192}            \* zig-zag lengths: 1|2 and 2|3 bytes
LenU == {127, 128, 16383, 16384}        \* unsigned lengths
Str(n) == <<3>> \o Rep(97, n)
Run(n) == <<9>> \o [i \in 1..n |-> i % 251]
Bools(n) == <<8>> \o [i \in 1..n |-> <<1, i % 2>>]
Units(n) == <<8>> \o Rep(<<2>>, n)
VEC(t) == [k |-> "vec", e |-> t]
BOOL == K("bool")
Pairs(n) == <<8>> \o [i \in 1..n |-> <<10, <<0, 0, i - 1>>, <<1, i % 2>>>>]      \* keys 0 .. n-1 in order (u16)
NanoEdges == {127, 128, 16383, 16384, 2097151, 2097152, 268435455, 268435456}
YearEdges == {127, 128, 16383, 16384, 262142}
OffEdges == {63, 64, -64, -65, 8191, 8192, -8192, -8193}
U32Edges == {<<0, 127>>, <<0, 128>>, <<0, 16383>>, <<0, 16384>>, <<0, 2097151>>, <<0, 2097152>>, <<0, P28 - 1>>, <<1, 0>>, <<15, P28 - 1>>}

Len64K == {65535, 65536, 65537}         \* around 2^16: buffer-size habits (64 KiB reservations, u16 counters)
Cases ==
       {[ty |-> STR, v |-> Str(n)] : n \in LenV \cup Len64K}
  \cup {[ty |-> K("vecu8"), v |-> Run(n)] : n \in Len64K}
  \cup {[ty |-> K("bytes"), v |-> Run(n)] : n \in Len64K}
  \cup {[ty |-> K("dstr"), v |-> Str(n)] : n \in LenV}
  \cup {[ty |-> K("vecu8"), v |-> Run(n)] : n \in LenU}
  \cup {[ty |-> K("bytes"), v |-> Run(n)] : n \in LenU}
  \cup {[ty |-> VEC(BOOL), v |-> Bools(n)] : n \in LenV}
  \cup {[ty |-> [k |-> "list", e |-> BOOL], v |-> Bools(n)] : n \in {63, 64}}
  \cup {[ty |-> VEC(K("unit")), v |-> Units(n)] : n \in {63, 64}}     \* beyond 64 zero-width elements: DESIGN 7 D14
  \cup {[ty |-> [k |-> "bmap", a |-> K("u16"), b |-> BOOL], v |-> Pairs(n)] : n \in {63, 64}}
  \cup {[ty |-> [k |-> "opt", e |-> STR], v |-> <<5, Str(n)>>] : n \in {8191, 8192}}
  \cup {[ty |-> [k |-> "tup", es |-> <<STR, U8>>], v |-> <<10, Str(n), <<0, 7>>>>] : n \in {8191, 8192}}
  \cup {[ty |-> VEC(STR), v |-> <<8, Str(n), Str(1)>>] : n \in {8191, 8192}}
  \* the middle field is chunk 1 of an evolved record: its size is written in the header
  \cup {[ty |-> [k |-> "inchunk", e |-> STR], v |-> <<20, <<0, 7>>, Str(n), <<0, 9>>>>] : n \in {62, 63, 8189, 8190}}
  \cup {[ty |-> [k |-> "inchunk", e |-> K("vecu8")], v |-> <<20, <<0, 7>>, Run(n), <<0, 9>>>>] : n \in {8189, 8190}}
  \cup {[ty |-> K("ntime"), v |-> <<13, 1, 2, 3, n>>] : n \in NanoEdges}
  \cup {[ty |-> K("ndate"), v |-> <<12, y, 6, 15>>] : y \in YearEdges}
  \cup {[ty |-> K("foffset"), v |-> <<11, s>>] : s \in OffEdges}
  \cup {[ty |-> K("varu32"), v |-> <<17, u[1], u[2]>>] : u \in U32Edges}

Init == c \in Cases
Next == UNCHANGED c
Spec == Init /\ [][Next]_c

Suffixes == {<<>>, <<0>>, <<1>>, <<255>>, <<1, 0>>, <<128, 128>>}
E == Encode(c.ty, c.v)
RoundTrip == E.ok /\ LET d == Decode(c.ty, E.b) IN d.ok /\ d.v = c.v /\ d.p = Len(E.b) + 1
SelfDelimiting == \A s \in {<<1>>, <<128, 128>>} : LET d == Decode(c.ty, E.b \o s) IN d.ok /\ d.v = c.v /\ d.p = Len(E.b) + 1
\* prefixes: the cuts around the length field and the last bytes (the harness cuts everywhere)
PrefixRejected == \A k \in {0, 1, 2, 3, Len(E.b) - 2, Len(E.b) - 1} : (k >= 0 /\ k < Len(E.b)) => ~Decode(c.ty, SubSeq(E.b, 1, k)).ok
FormsDecode == LET a == EncAlt(c.ty, c.v, EmptySt) d == Decode(c.ty, a.b) IN d.ok /\ d.v = c.v /\ d.p = Len(a.b) + 1
\* the width of the length field changes exactly where the format says
EmitCases ==
  PrintT(<<"REPLAY", ToJson([ty |-> c.ty, hash |-> FALSE,
                             cases |-> <<[v |-> c.v, b |-> E.b, alt |-> EncAlt(c.ty, c.v, EmptySt).b, perms |-> {}]>>])>>)
=============================================================================
