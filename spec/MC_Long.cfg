SPECIFICATION Spec
INVARIANTS RoundTrip SelfDelimiting PrefixRejected FormsDecode EmitCases
CHECK_DEADLOCK FALSE
