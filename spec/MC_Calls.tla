------------------------------ MODULE MC_Calls ------------------------------
EXTENDS Calls
CONSTANTS t1, t2, t3, A, B, C
ProgsDef == (t1 :> <<[ty |-> A, arg |-> <<"x", "x">>], [ty |-> B, arg |-> <<"x", "y">>], [ty |-> C, arg |-> <<"y">>]>>) @@
            (t2 :> <<[ty |-> A, arg |-> <<"y">>], [ty |-> C, arg |-> <<"y", "y">>], [ty |-> B, arg |-> <<"x", "x">>]>>) @@
            (t3 :> <<[ty |-> B, arg |-> <<"x">>], [ty |-> A, arg |-> <<"x", "x">>], [ty |-> A, arg |-> <<"y", "x">>]>>)
\* results (history) are not part of the state that matters for the search
View == <<meta, metaVal, inits, global, pc, idx, ctx, acc, k, out>>
=============================================================================
