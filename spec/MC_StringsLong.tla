--------------------------- MODULE MC_StringsLong ---------------------------
(***************************************************************************)
(* C09 on long streams: N distinct deduplicated strings followed by        *)
(* repeats of the strings whose ids lie on both sides of the width changes *)
(* of a back-reference (zig-zag of -id: one byte up to id 64, two bytes    *)
(* up to 8192): 1, 63, 64, 65, 127, 128, 129, N.  MC_Strings has at most   *)
(* four distinct strings per stream, so every back-reference there is one  *)
(* byte long (seeded change S35).  Placements: flat stream, vector.        *)
(* One TLC state per (N, placement).  For N in ShapeOnly (8200: ids on     *)
(* both sides of 8192, where the back-reference grows to three bytes) the  *)
(* encoder / decoder of Codec.tla are too slow in TLC; the expected bytes  *)
(* are then the closed form `Shape`, which TLC proves equal to the encoder *)
(* for the smaller sizes.                                                  *)
(***************************************************************************)
EXTENDS Adt, Json
CONSTANTS Sizes, ShapeOnly
VARIABLES N, pl
vars == <<N, pl>>
Init == N \in Sizes \cup ShapeOnly /\ pl \in {"stream", "vec"}
Next == UNCHANGED vars
Spec == Init /\ [][Next]_vars

Name(i) == <<97 + ((i \div 676) % 26), 97 + ((i \div 26) % 26), 97 + (i % 26)>>      \* distinct three-letter strings
Targets == {k \in {1, 2, 63, 64, 65, 127, 128, 129, 8191, 8192, 8193, N - 1, N} : k >= 1 /\ k <= N}
RECURSIVE SetToSeq(_)
SetToSeq(S) == IF S = {} THEN <<>> ELSE LET m == CHOOSE x \in S : \A y \in S : x <= y IN <<m>> \o SetToSeq(S \ {m})
Repeats == SetToSeq(Targets)
Ids == [i \in 1..N |-> i] \o Repeats                      \* the id each write resolves to
Items == [i \in 1..Len(Ids) |-> <<3>> \o Name(Ids[i])]
DS == K("dstr")
Types == [i \in 1..Len(Ids) |-> DS]
E == IF pl = "stream" THEN EncTs("canon", Types, <<0>> \o Items, 1, 1, EmptySt) ELSE Encode([k |-> "vec", e |-> DS], <<8>> \o Items)

\* decoding yields the strings written
Closed == (IF pl = "stream" THEN <<>> ELSE VarI(Len(Ids)))
          \o Flatten([i \in 1..N |-> EncStrBytes(Name(i))]) \o Flatten([j \in 1..Len(Repeats) |-> VarI(-Repeats[j])])
RoundTrip ==
  N \in Sizes =>
  /\ E.ok
  /\ IF pl = "stream"
     THEN LET d == DecTs(Types, E.b, 1, Len(E.b), EmptySt, 1, <<>>) IN d.ok /\ d.vs = Items /\ d.p = Len(E.b) + 1
     ELSE LET d == Decode([k |-> "vec", e |-> DS], E.b) IN d.ok /\ d.v = <<8>> \o Items /\ d.p = Len(E.b) + 1
\* first occurrences are plain strings, every repeat is the zig-zag varint of minus its id
Shape == N \in Sizes => E.b = Closed
\* a back-reference beyond the table is an error
Beyond ==
  pl = "stream" /\ N \in Sizes =>
    \A k \in {N + 1, N + 2} :
      LET pre == Flatten([i \in 1..N |-> EncStrBytes(Name(i))])
          d == DecTs([i \in 1..(N + 1) |-> DS], pre \o VarI(-k), 1, Len(pre) + Len(VarI(-k)), EmptySt, 1, <<>>) IN
      d = DErr("BadStringId")

EmitCases ==
  PrintT(<<"REPLAY", ToJson([pl |-> pl, n |-> N, ss |-> [i \in 1..Len(Ids) |-> Name(Ids[i])], b |-> IF N \in Sizes THEN E.b ELSE Closed,
                             beyond |-> IF pl = "stream"
                                        THEN {[n |-> N, k |-> k, b |-> Flatten([i \in 1..N |-> EncStrBytes(Name(i))]) \o VarI(-k)] : k \in {N + 1, N + 2}}
                                        ELSE {}])>>)
=============================================================================
