SPECIFICATION Spec
INVARIANTS ContainerIndependent FormIndependent SameBytes BytesInterchangeable EmitCases
CHECK_DEADLOCK FALSE
