SPECIFICATION Spec
INVARIANTS ContainerIndependent FormIndependent SameBytes BytesInterchangeable SharedDecodes EmitCases
CHECK_DEADLOCK FALSE
