----------------------------- MODULE VarintInt -----------------------------
(***************************************************************************)
(* Apalache instantiation of VarintCore over unbounded integers: the C11   *)
(* statements for ALL 2^32 unsigned and ALL 2^32 signed values, discharged *)
(* symbolically (apalache-mc check --length=0 --inv=...).                  *)
(***************************************************************************)
EXTENDS Integers, Sequences
VARIABLES
  \* @type: Int;
  x,
  \* @type: Int;
  n

P7 == 128
P14 == 16384
P21 == 2097152
P28 == 268435456
P32 == 4294967296

\* @type: (Int, Int) => Int;
GrpInt(v, i) == IF i = 0 THEN v % 128
                ELSE IF i = 1 THEN (v \div P7) % 128
                ELSE IF i = 2 THEN (v \div P14) % 128
                ELSE IF i = 3 THEN (v \div P21) % 128
                ELSE v \div P28

VC == INSTANCE VarintCore WITH Grp <- GrpInt

\* @type: Seq(Int) => Int;
ValueOf(g) == g[1] + P7 * g[2] + P14 * g[3] + P21 * g[4] + P28 * g[5]
ZZ(k) == IF k >= 0 THEN 2 * k ELSE -2 * k - 1
UnZZ(u) == IF u % 2 = 0 THEN u \div 2 ELSE -((u + 1) \div 2)

Init == x \in 0..(P32 - 1) /\ n \in (-2147483648)..2147483647
Next == UNCHANGED <<x, n>>

\* unsigned: decoding the encoding gives x back, all of it consumed, continuation bits right,
\* no strict prefix complete
UnsignedRoundTrip ==
  /\ VC!VarBijective(x)
  /\ ValueOf(VC!ReadGroups(VC!EncVarU(x), 1, VC!Width(x)).g) = x
  /\ VC!ContBits(x)
  /\ VC!PrefixIncomplete(x)
\* minimal length: exactly ceil(bits / 7) clamped to [1, 5]
UnsignedMinimal ==
  /\ (VC!Width(x) = 1 <=> x < P7)
  /\ (VC!Width(x) = 2 <=> (x >= P7 /\ x < P14))
  /\ (VC!Width(x) = 3 <=> (x >= P14 /\ x < P21))
  /\ (VC!Width(x) = 4 <=> (x >= P21 /\ x < P28))
  /\ (VC!Width(x) = 5 <=> x >= P28)
  /\ Len(VC!EncVarU(x)) = VC!Width(x)
\* zig-zag is a bijection i32 -> u32, small magnitudes stay short
ZigZagLemma ==
  /\ ZZ(n) \in 0..(P32 - 1)
  /\ UnZZ(ZZ(n)) = n
  /\ (VC!Width(ZZ(n)) = 1 <=> (n >= -64 /\ n <= 63))
  /\ (VC!Width(ZZ(n)) <= 2 <=> (n >= -8192 /\ n <= 8191))
  /\ (VC!Width(ZZ(n)) <= 3 <=> (n >= -1048576 /\ n <= 1048575))
  /\ (VC!Width(ZZ(n)) <= 4 <=> (n >= -134217728 /\ n <= 134217727))
\* and every u32 is the zig-zag of exactly one i32
ZigZagOnto == UnZZ(x) \in (-2147483648)..2147483647 /\ ZZ(UnZZ(x)) = x
=============================================================================
