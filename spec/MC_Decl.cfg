SPECIFICATION Spec
INVARIANTS DeriveMeansProcedure TransientInvisible TransientCtorErr CtorIdentity DeclSelfDelimiting DeclPrefixRejected ExtensionSafe UnknownCtorErr EmitCases
CHECK_DEADLOCK FALSE
CONSTANT Wide = FALSE
