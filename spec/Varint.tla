------------------------------ MODULE Varint ------------------------------
(***************************************************************************)
(* TLC instantiation of VarintCore: a u32 is the pair <<hi, lo>> with      *)
(* value hi * 2^28 + lo, hi \in 0..15, lo \in 0..2^28-1, because TLC's     *)
(* integers are Java ints.  Signed values (i32) are plain TLC ints.        *)
(***************************************************************************)
EXTENDS Integers, Sequences

P7  == 128
P14 == 16384
P21 == 2097152
P27 == 134217728
P28 == 268435456

GrpPair(u, i) ==
  IF i = 0 THEN u[2] % 128
  ELSE IF i = 1 THEN (u[2] \div P7) % 128
  ELSE IF i = 2 THEN (u[2] \div P14) % 128
  ELSE IF i = 3 THEN u[2] \div P21
  ELSE u[1]

VC == INSTANCE VarintCore WITH Grp <- GrpPair

\* u32 pair of a natural number below 2^31
U32(n) == <<n \div P28, n % P28>>
\* pair from groups
FromGroups(g) == <<g[5], g[1] + P7 * g[2] + P14 * g[3] + P21 * g[4]>>

\* zig-zag: i32 -> u32 pair, never forming 2n as an int
ZigZag(n) == IF n >= 0 THEN <<n \div P27, (n % P27) * 2>>
             ELSE LET m == -(n + 1) IN <<m \div P27, (m % P27) * 2 + 1>>
\* inverse: u32 pair -> i32
UnZigZag(u) == LET h == u[1] * P27 + (u[2] \div 2) IN
               IF u[2] % 2 = 0 THEN h ELSE -h - 1

VarUW(u) == VC!EncVarU(u)          \* encode a u32 pair
VarU(n)  == VarUW(U32(n))          \* encode a natural < 2^31
VarI(n)  == VarUW(ZigZag(n))       \* encode an i32, zig-zag

\* Readers over a byte sequence b, cursor p, last readable index lim.
\* Result [ok, u (pair), p (next cursor)].
RdVarU(b, p, lim) ==
  LET r == VC!ReadGroups(b, p, lim - p + 1) IN
  [ok |-> r.ok, u |-> FromGroups(r.g), p |-> p + r.n]
\* as i32
RdVarI(b, p, lim) ==
  LET r == RdVarU(b, p, lim) IN [ok |-> r.ok, x |-> UnZigZag(r.u), p |-> r.p]

\* does the pair denote a number that fits a TLC int comfortably (< 2^28)?
Small(u) == u[1] = 0
=============================================================================
