----------------------------- MODULE Trace_Calls -----------------------------
(***************************************************************************)
(* Trace validation for C18: events of a multi-threaded stress trial, in    *)
(* the order of their global sequence numbers (taken under the log mutex):  *)
(*   {"ev":"metainit","name":static,"t":thread}   a metadata initialiser ran *)
(*   {"ev":"ctx","t":thread}                      a call created its context *)
(*   {"ev":"str"|"ref","id":i,"new":0|1,"t":thread}                          *)
(* OnceOnly: no metadata static is initialised twice.  CtxFresh: table ids   *)
(* restart at 1 with every context and are private to the calling thread.    *)
(***************************************************************************)
EXTENDS Integers, Sequences, FiniteSets, Json, IOUtils, TLC
Rec == ndJsonDeserialize(IOEnv.TRACE)
VARIABLES l, inited, nextStr, nextRef, viol
vars == <<l, inited, nextStr, nextRef, viol>>
Threads == 0..64
Flag(cond, why) == IF viol = <<>> /\ ~cond THEN <<l, why>> ELSE viol
Init == l = 1 /\ inited = {} /\ nextStr = [t \in Threads |-> 1] /\ nextRef = [t \in Threads |-> 1] /\ viol = <<>>
Next == /\ l <= Len(Rec)
        /\ LET e == Rec[l] IN
           CASE e.ev = "metainit" ->
                  /\ viol' = Flag(e.name \notin inited, "a per-type metadata static was initialised twice")
                  /\ inited' = inited \cup {e.name} /\ UNCHANGED <<nextStr, nextRef>>
             [] e.ev = "ctx" ->
                  /\ nextStr' = [nextStr EXCEPT ![e.t] = 1] /\ nextRef' = [nextRef EXCEPT ![e.t] = 1] /\ UNCHANGED <<inited, viol>>
             [] e.ev = "str" ->
                  /\ viol' = Flag(IF e.new = 1 THEN e.id = nextStr[e.t] ELSE e.id < nextStr[e.t], "string ids do not restart with the call / leak between threads")
                  /\ nextStr' = (IF e.new = 1 THEN [nextStr EXCEPT ![e.t] = e.id + 1] ELSE nextStr) /\ UNCHANGED <<inited, nextRef>>
             [] e.ev = "ref" ->
                  /\ viol' = Flag(IF e.new = 1 THEN e.id = nextRef[e.t] ELSE e.id < nextRef[e.t], "object ids do not restart with the call / leak between threads")
                  /\ nextRef' = (IF e.new = 1 THEN [nextRef EXCEPT ![e.t] = e.id + 1] ELSE nextRef) /\ UNCHANGED <<inited, nextStr>>
        /\ l' = l + 1
Spec == Init /\ [][Next]_vars
Accepted == IF TLCGet("stats").diameter - 1 # Len(Rec)
            THEN PrintT(<<"SHAPE", TLCGet("stats").diameter, Rec[TLCGet("stats").diameter]>>) /\ FALSE ELSE TRUE
NoViolation == viol = <<>> \/ (PrintT(<<"REJECTED", viol[1], viol[2], Rec[viol[1]]>>) /\ FALSE)
=============================================================================
