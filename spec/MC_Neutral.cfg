SPECIFICATION Spec
INVARIANTS Neutral EmitCases
CHECK_DEADLOCK FALSE
