------------------------------ MODULE MC_Decl ------------------------------
(***************************************************************************)
(* C02, C13, C14 (and the derived-type parts of C04, C07, C08, C17): the   *)
(* universe of declarations the derive macro accepts.  One TLC state per   *)
(* declaration.  Each declaration is rendered as a #[derive(BinaryCodec)]  *)
(* item by tools/gen_decl.py and compiled against the working tree.        *)
(***************************************************************************)
EXTENDS Adt, Json
CONSTANT Wide            \* FALSE: quick universe; TRUE: thorough
VARIABLE T
-----------------------------------------------------------------------------
(* Field types and struct shapes *)
Inner == StructT(<<Fld(Nm(120), U8, "plain", FALSE, <<>>), Fld(Nm(121), STR, "plain", FALSE, <<3, 100>>)>>,
                 <<Stp("Added", Nm(121), <<3, 100>>)>>)
InnerEnum == EnumT(<<VariantT(<<65>>, "unit", <<>>, <<>>, FALSE),
                     VariantT(<<66>>, "tuple", <<Fld(VariantFieldName(0), STR, "plain", FALSE, <<>>)>>, <<>>, FALSE)>>, FALSE)
Small3 == {U8, STR, OptT(U8)}
FT == Small3 \cup {K("vecu8"), OptT(STR), Inner, InnerEnum, NamedT("RecList"), K("u16"), [k |-> "vec", e |-> STR]}
NameOf(i) == Nm(96 + i)      \* a b c
Plain(t, i) == Fld(NameOf(i), t, IF t.k = "opt" THEN "Option" ELSE "plain", FALSE, <<>>)
Seqs(SS, n) == [1..n -> SS]
Shape(ts) == StructT([i \in 1..Len(ts) |-> Plain(ts[i], i)], <<>>)

\* A: every shape without attributes (the unit struct included)
ShapesA == {Shape(<<>>)} \cup {Shape(ts) : ts \in Seqs(FT, 1)}
           \cup {Shape(ts) : ts \in Seqs(IF Wide THEN FT ELSE Small3 \cup {Inner, K("vecu8")}, 2)}
           \cup {Shape(ts) : ts \in Seqs(Small3, 3)}
SmallShapes == UNION {{Shape(ts) : ts \in Seqs(Small3, n)} : n \in 1..3}

\* B: transient fields at every non-empty subset of positions
WithTransient(D, mask) == [D EXCEPT !.fields = [i \in 1..Len(D.fields) |->
     IF i \in mask THEN [D.fields[i] EXCEPT !.tr = TRUE, !.dv = TrDefault(D.fields[i].t)] ELSE D.fields[i]]]
DeclsB == UNION {{WithTransient(D, mask) : mask \in (SUBSET (1..Len(D.fields))) \ {{}}} : D \in SmallShapes}

\* C: the spellings of Option the macro does / does not recognise
OptIdx(D) == {i \in 1..Len(D.fields) : D.fields[i].t.k = "opt"}
\* ("paren": written (Option<T>); "tmpl": the type reaches the derive through a `$t:ty` fragment of a macro_rules
\* template, i.e. inside an invisible group - both are Option to the macro)
DeclsC == UNION {{[D EXCEPT !.fields[i].sp = sp] : i \in OptIdx(D), sp \in {"std", "core", "alias", "paren", "tmpl"}} : D \in SmallShapes}

\* D: evolution annotations (deep histories are MC_Evo's business)
LastF(D) == D.fields[Len(D.fields)]
DefaultFor(f) == Last(Distinct(f.t, f.n))
EvoAddedLast(D) == [D EXCEPT !.steps = <<Stp("Added", LastF(D).n, DefaultFor(LastF(D)))>>,
                             !.fields[Len(D.fields)].dv = DefaultFor(LastF(D))]
EvoAddedFirst(D) == [D EXCEPT !.steps = <<Stp("Added", D.fields[1].n, DefaultFor(D.fields[1]))>>,
                              !.fields[1].dv = DefaultFor(D.fields[1])]
Gone == <<103, 111, 110, 101>>
EvoRemovedGone(D) == [D EXCEPT !.steps = <<Stp("Removed", Gone, <<>>)>>]
EvoOptFirst(D) == [D EXCEPT !.steps = <<Stp("MadeOptional", D.fields[1].n, <<>>)>>]
EvoAddedOptLast(D) == [EvoAddedLast(D) EXCEPT !.steps = Append(@, Stp("MadeOptional", LastF(D).n, <<>>))]
\* made optional, later made transient (DESIGN 7, D12)
EvoOptTransient(D) ==
  [WithTransient(D, {Len(D.fields)}) EXCEPT !.steps = <<Stp("MadeOptional", LastF(D).n, <<>>), Stp("MadeTransient", LastF(D).n, <<>>)>>]
\* added, made optional, removed again: the header falls back to a removed-name step twice
EvoAddOptRemove(D) == [D EXCEPT !.steps = <<Stp("Added", Gone, <<>>), Stp("MadeOptional", Gone, <<>>), Stp("Removed", Gone, <<>>)>>]
\* two-step combinations: an added field declared before / after a made-optional chunk-0 field
EvoAddFirstOptSecond(D) ==
  [D EXCEPT !.steps = <<Stp("Added", D.fields[1].n, DefaultFor(D.fields[1])), Stp("MadeOptional", D.fields[2].n, <<>>)>>,
            !.fields[1].dv = DefaultFor(D.fields[1])]
EvoOptFirstAddLast(D) ==
  [D EXCEPT !.steps = <<Stp("MadeOptional", D.fields[1].n, <<>>), Stp("Added", LastF(D).n, DefaultFor(LastF(D)))>>,
            !.fields[Len(D.fields)].dv = DefaultFor(LastF(D))]
EvoAddMiddleOptLast(D) ==
  [D EXCEPT !.steps = <<Stp("Added", D.fields[2].n, DefaultFor(D.fields[2])), Stp("MadeOptional", LastF(D).n, <<>>)>>,
            !.fields[2].dv = DefaultFor(D.fields[2])]
DeclsD2 == {EvoAddFirstOptSecond(D) : D \in {X \in SmallShapes : Len(X.fields) >= 2 /\ X.fields[2].t.k = "opt"}}
           \cup {EvoOptFirstAddLast(D) : D \in {X \in SmallShapes : Len(X.fields) >= 2 /\ X.fields[1].t.k = "opt"}}
           \cup {EvoAddMiddleOptLast(D) : D \in {X \in SmallShapes : Len(X.fields) = 3 /\ LastF(X).t.k = "opt"}}
\* the spellings of Option on a field that the history made optional (the reader path depends on the spelling)
DeclsC2 == UNION {{[EvoOptFirst(D) EXCEPT !.fields[1].sp = sp] : sp \in {"std", "core", "paren", "tmpl"}} :
                    D \in {X \in SmallShapes : X.fields[1].t.k = "opt"}}
           \cup UNION {{[EvoAddedOptLast(D) EXCEPT !.fields[Len(D.fields)].sp = sp] : sp \in {"paren", "tmpl"}} :
                    D \in {X \in SmallShapes : LastF(X).t.k = "opt"}}
DeclsD == DeclsC2 \cup DeclsD2 \cup {EvoAddedLast(D) : D \in SmallShapes} \cup {EvoRemovedGone(D) : D \in SmallShapes}
          \cup {EvoAddOptRemove(D) : D \in SmallShapes}
          \cup {EvoOptFirst(D) : D \in {X \in SmallShapes : X.fields[1].t.k = "opt"}}
          \cup {EvoAddedOptLast(D) : D \in {X \in SmallShapes : LastF(X).t.k = "opt"}}
          \cup {EvoOptTransient(D) : D \in {X \in SmallShapes : LastF(X).t.k = "opt"}}
          \cup {EvoAddedFirst(D) : D \in {X \in SmallShapes : Len(X.fields) >= 2}}

\* E: nesting: an evolved struct, an enum and recursive types inside an evolved struct
DeclsE == {EvoAddedLast(Shape(<<t1, t2>>)) :
             t1 \in {Inner, InnerEnum, NamedT("RecList"), NamedT("RecTree"), NamedT("RecEnum")}, t2 \in {U8, Inner, InnerEnum}}
          \cup {EvoAddedFirst(Shape(<<t1, t2>>)) : t1 \in {Inner, InnerEnum}, t2 \in {STR, NamedT("RecTree")}}

\* F: field names that collide with locals of the generated code
Special == <<<<99, 111, 110, 116, 101, 120, 116>>,                                   \* context
             <<115, 116, 111, 114, 101, 100, 95, 118, 101, 114, 115, 105, 111, 110>>,  \* stored_version
             <<114, 101, 115, 117, 108, 116>>,                                       \* result
             <<100, 101, 115, 101, 114, 105, 97, 108, 105, 122, 101, 114>>>>          \* deserializer
\* (a field named "serializer" is rejected at compile time: the generated destructuring
\* pattern shadows the macro's own local; outside "definitions the macro accepts")
SpecialD == StructT([i \in 1..4 |-> Fld(Special[i], IF i = 2 THEN STR ELSE U8, "plain", FALSE, <<>>)], <<>>)
DeclsF == {SpecialD, EvoAddedLast(SpecialD)}

\* G: deduplicated strings inside records (table state must restart with every call: C18)
DS == K("dstr")
DeclsG == {EvoRemovedGone(Shape(<<DS, DS>>)), Shape(<<DS, STR, DS>>), EvoAddedLast(Shape(<<DS, DS>>))}
HasDstr(X) == X.k = "struct" /\ \E i \in 1..Len(X.fields) : X.fields[i].t.k = "dstr"

\* H: wide records: more fields in one chunk than a signed byte can count (positions are bytes on the wire
\* only for made-optional fields; plain fields beyond position 127 must simply work)
WideName(i) == <<102, 48 + (i \div 100), 48 + ((i \div 10) % 10), 48 + (i % 10)>>     \* f000 .. f129
WideD == StructT([i \in 1..130 |-> Fld(WideName(i - 1), U8, "plain", FALSE, <<>>)], <<>>)
\* the field at position 128 (the last one the position byte can name) made optional
WideOpt == [WideD EXCEPT !.fields[129].t = OptT(U8), !.fields[129].sp = "Option", !.steps = <<Stp("MadeOptional", WideName(128), <<>>)>>]
DeclsH == {WideD, EvoAddedLast(WideD), EvoRemovedGone(WideD), WideOpt}

\* Z: zero-width fields ((), PhantomData) in evolved records: a chunk that holds fields and is nevertheless
\* empty (its size 0 is the "unknown" step code on the wire) must be read like any other chunk
UNIT == K("unit")
PHANTOM == [k |-> "phantom", e |-> U8]
DeclsZ == {EvoAddedLast(Shape(<<U8, UNIT>>)), EvoAddedLast(Shape(<<U8, PHANTOM>>)), EvoAddedFirst(Shape(<<UNIT, U8>>)),
           EvoAddedLast(Shape(<<UNIT, U8>>)),                  \* chunk 0 holds only the zero-width field
           EvoRemovedGone(Shape(<<UNIT>>)), EvoRemovedGone(Shape(<<PHANTOM, UNIT>>)),
           EvoAddedLast(Shape(<<UNIT, UNIT>>)), EvoAddedLast(Shape(<<STR, OptT(UNIT)>>)), Shape(<<UNIT, PHANTOM>>)}

\* R: several records with several removed names in ONE call: the names get their string ids in step order when the
\* first record is opened, every later record cites them by id (the numbering must not depend on anything else)
Rem4 == StructT(<<Fld(Nm(97), U8, "plain", FALSE, <<>>)>>,
                <<Stp("Removed", <<103, 49>>, <<>>), Stp("Removed", <<103, 50>>, <<>>), Stp("MadeTransient", <<103, 51>>, <<>>), Stp("Removed", <<103, 52>>, <<>>)>>)
DeclsR == {Shape(<<[k |-> "vec", e |-> Rem4]>>), EvoAddedLast(Shape(<<U8, [k |-> "vec", e |-> Rem4]>>)), Shape(<<Rem4, Rem4>>)}

\* T: a value of a transient constructor held in a field of a record WITH a header (the field is written into a chunk
\* buffer): the record's encoding fails with the constructor's error, it does not swallow it
TEnum == EnumT(<<VariantT(<<75, 101, 101, 112>>, "unit", <<>>, <<>>, FALSE), VariantT(<<84, 109, 112>>, "unit", <<>>, <<>>, TRUE),
                 VariantT(<<86, 97, 108>>, "tuple", <<Fld(VariantFieldName(0), U8, "plain", FALSE, <<>>)>>, <<>>, FALSE)>>, FALSE)
DeclsT == {EvoAddedLast(Shape(<<U8, TEnum>>)), EvoAddedFirst(Shape(<<TEnum, U8>>)), EvoRemovedGone(Shape(<<TEnum>>)), Shape(<<U8, TEnum>>),
           EvoAddedLast(Shape(<<U8, OptT(TEnum)>>)), EvoAddedLast(Shape(<<U8, [k |-> "vec", e |-> TEnum]>>))}

StructDecls == DeclsT \cup DeclsR \cup DeclsZ \cup DeclsG \cup DeclsH \cup ShapesA \cup DeclsB \cup DeclsC \cup DeclsD \cup DeclsE \cup DeclsF
               \cup {NamedT("RecList"), NamedT("RecTree"), NamedT("RecEnum")}

-----------------------------------------------------------------------------
(* Enums *)
\* Declaration order "Bb", "BC", "Ab".  Sorting by identifier (byte-wise String order, as the
\* macro does) gives Ab < BC < Bb; a case-insensitive order would give Ab < Bb < BC.
VNameOf == [c \in {65, 66, 67, 88, 89} |->
             IF c = 67 THEN <<66, 98>> ELSE IF c = 65 THEN <<66, 67>> ELSE IF c = 66 THEN <<65, 98>>
             ELSE IF c = 88 THEN <<88, 120>> ELSE <<88, 90>>]        \* Xx, XZ: after all others, and XZ < Xx
VName(c) == VNameOf[c]
VNames == <<67, 65, 66>>
VFields(shape, ts) == [i \in 1..Len(ts) |->
    Fld(IF shape = "tuple" THEN VariantFieldName(i - 1) ELSE Nm(119 + i), ts[i],
        IF ts[i].k = "opt" THEN "Option" ELSE "plain", FALSE, <<>>)]
VShapes == {<<"unit", <<>>>>, <<"tuple", <<U8>>>>, <<"tuple", <<STR, U8>>>>, <<"struct", <<U8>>>>, <<"struct", <<OptT(U8), STR>>>>}
VShapes3 == {<<"unit", <<>>>>, <<"tuple", <<STR, U8>>>>, <<"struct", <<OptT(U8), STR>>>>}
MkVariant(c, sh, tr) == VariantT(VName(c), sh[1], VFields(sh[1], sh[2]), <<>>, tr)
MkEnum(shs, trs, sorted) == EnumT([i \in 1..Len(shs) |-> MkVariant(VNames[i], shs[i], i \in trs)], sorted)
EnumsPlain == UNION {{MkEnum(shs, {}, srt) : shs \in Seqs(VShapes, n), srt \in BOOLEAN} : n \in 1..2}
              \cup {MkEnum(shs, {}, srt) : shs \in Seqs(VShapes3, 3), srt \in BOOLEAN}
\* transient constructors at every position
EnumsTransient == {MkEnum(shs, trs, srt) : shs \in Seqs(VShapes3, 3), trs \in (SUBSET (1..3)) \ {{}, {1, 2, 3}}, srt \in BOOLEAN}
                  \cup {MkEnum(shs, trs, FALSE) : shs \in Seqs(VShapes3, 2), trs \in {{1}, {2}}}
\* evolution annotations on variants (tuple variants use field0, field1)
HasFields(E, i) == Len(E.variants[i].fields) > 0
EvoVariant(E, i) ==
  LET var == E.variants[i] n == Len(var.fields) lf == var.fields[n] IN
  [E EXCEPT !.variants[i].steps = <<Stp("Added", lf.n, DefaultFor(lf))>>, !.variants[i].fields[n].dv = DefaultFor(lf)]
EvoVariantOpt(E, i) ==
  [E EXCEPT !.variants[i].steps = <<Stp("Removed", Gone, <<>>), Stp("MadeOptional", E.variants[i].fields[1].n, <<>>)>>]
Plain2 == {X \in EnumsPlain : Len(X.variants) = 2}
EnumsEvolved ==
  UNION {{EvoVariant(E, i) : i \in {j \in 1..2 : HasFields(E, j)}} : E \in Plain2}
  \cup UNION {{EvoVariantOpt(E, i) : i \in {j \in 1..2 : HasFields(E, j) /\ E.variants[j].fields[1].t.k = "opt"}} : E \in Plain2}
\* every evolution pattern of the struct universe (DeclsD), carried by a tuple variant (fields are
\* then called field0, field1, ..) and by a struct variant, next to a unit variant
RenameTuple(X, n) == IF \E i \in 1..Len(X.fields) : X.fields[i].n = n
                     THEN VariantFieldName((CHOOSE i \in 1..Len(X.fields) : X.fields[i].n = n) - 1) ELSE n
VariantOf(X, shape) ==
  VariantT(VName(65), shape,
           [i \in 1..Len(X.fields) |-> IF shape = "tuple" THEN [X.fields[i] EXCEPT !.n = VariantFieldName(i - 1)] ELSE X.fields[i]],
           [j \in 1..Len(X.steps) |-> IF shape = "tuple" THEN [X.steps[j] EXCEPT !.n = RenameTuple(X, @)] ELSE X.steps[j]], FALSE)
EnumsFromStructs == {EnumT(<<VariantT(VName(67), "unit", <<>>, <<>>, FALSE), VariantOf(X, sh)>>, FALSE) :
                       X \in {Y \in DeclsD : \A i \in 1..Len(Y.fields) : ~Y.fields[i].tr}, sh \in {"tuple", "struct"}}
\* wide enums: 130 constructors - the constructor index is a var_u32 that takes two bytes from 128 on.  Unit
\* constructors V129 .. V000 in this order (so that sorting reverses the numbering) and a last one with a field
WideV(i) == <<86, 48 + (i \div 100), 48 + ((i \div 10) % 10), 48 + (i % 10)>>
WideEnum(sorted) ==
  EnumT([i \in 1..130 |-> IF i = 130 THEN VariantT(WideV(0), "tuple", VFields("tuple", <<U8>>), <<>>, FALSE)
                           ELSE VariantT(WideV(130 - i), "unit", <<>>, <<>>, FALSE)], sorted)
EnumsWide == {WideEnum(FALSE), WideEnum(TRUE)}
\* transient fields inside tuple and struct variants (every non-empty subset of the positions of two-field shapes)
EnumsFieldTransient == {EnumT(<<VariantT(VName(67), "unit", <<>>, <<>>, FALSE), VariantOf(X, sh)>>, FALSE) :
                          X \in {Y \in DeclsB : Len(Y.fields) = 2}, sh \in {"tuple", "struct"}}
\* a constructor that lost all its fields: a unit constructor WITH a history (its record has a header all the same),
\* first, between and after other constructors
UnitHistories == {<<Stp("Removed", Nm(120), <<>>)>>,
                  <<Stp("Added", Nm(121), <<0, 7>>), Stp("Removed", Nm(121), <<>>)>>,
                  <<Stp("Removed", Nm(120), <<>>), Stp("Removed", Nm(121), <<>>)>>}
UnitEvolved(h) == VariantT(VName(65), "unit", <<>>, h, FALSE)
EnumsUnitHistory ==
  {EnumT(<<VariantT(VName(67), "unit", <<>>, <<>>, FALSE), UnitEvolved(h)>>, FALSE) : h \in UnitHistories}
  \cup {EnumT(<<UnitEvolved(h), VariantT(VName(66), "tuple", <<Fld(VariantFieldName(0), U8, "plain", FALSE, <<>>)>>, <<>>, FALSE)>>, srt) : h \in UnitHistories, srt \in BOOLEAN}
EnumDecls == EnumsPlain \cup EnumsTransient \cup EnumsEvolved \cup EnumsFromStructs \cup EnumsWide \cup EnumsFieldTransient \cup EnumsUnitHistory

AllDecls == StructDecls \cup EnumDecls

Init == T \in AllDecls
Next == UNCHANGED T
Spec == Init /\ [][Next]_T

-----------------------------------------------------------------------------
(* Values *)
Resolve(D) == IF D.k = "named" THEN Named(D.name) ELSE D
EnumVals(E) == UNION {{<<21, i>> \o c : c \in FieldCombos(E.variants[i].fields, 1)} : i \in 1..Len(E.variants)}
DeclVals(D) == IF D.k = "named" THEN SeqToSet(NamedVals(D.name))
               ELSE IF D.k = "struct" THEN StructVals(D) ELSE EnumVals(D)
IsTransientCtor(D, v) == D.k = "enum" /\ D.variants[v[2]].tr
\* the value a decoder must produce: transient fields reset to their declared defaults
Masked(D, v) ==
  IF D.k = "struct" THEN <<20>> \o [i \in 1..Len(D.fields) |-> IF D.fields[i].tr THEN D.fields[i].dv ELSE v[i + 1]]
  ELSE IF D.k = "enum" THEN <<21, v[2]>> \o [i \in 1..Len(D.variants[v[2]].fields) |->
        IF D.variants[v[2]].fields[i].tr THEN D.variants[v[2]].fields[i].dv ELSE v[i + 2]]
  ELSE v

-----------------------------------------------------------------------------
(* The documented procedure, stated independently of Codec!EncRecord:       *)
(* fields in declaration order, each routed to the chunk of the step that   *)
(* added it; header entries per step.  (Declarations without deduplicated   *)
(* string fields: the only strings in the table are header names.)          *)
CatFields(fields, v, keep(_)) ==   \* concatenated encodings of the kept fields (value of field i is v[i + 1])
  Flatten([i \in 1..Len(fields) |-> IF keep(fields[i]) THEN Encode(fields[i].t, v[i + 1]).b ELSE <<>>])
ProcChunk(fields, steps, v, c) == CatFields(fields, v, LAMBDA f : ~f.tr /\ Gen(steps, f.n) = c)
ProcPos(fields, steps, n) ==   \* index of field n among the serialised fields of its chunk
  LET c == Gen(steps, n)
      before == {i \in 1..Len(fields) : ~fields[i].tr /\ Gen(steps, fields[i].n) = c /\
                   i < (CHOOSE j \in 1..Len(fields) : fields[j].n = n)} IN Cardinality(before)
NameStepsBefore(steps, i) == {j \in 1..(i - 1) : NameStep(steps, j)}
ProcName(steps, i) ==   \* first occurrence plain, later occurrences a back-reference to the id of the first
  LET firsts == {j \in 1..i : NameStep(steps, j) /\ \A l \in NameStepsBefore(steps, j) : steps[l].n # steps[j].n}
      first == CHOOSE j \in firsts : steps[j].n = steps[i].n IN
  IF first = i THEN EncStrBytes(steps[i].n) ELSE VarI(-Cardinality({j \in firsts : j <= first}))
ProcHeader(fields, steps, v, i) ==
  IF NameStep(steps, i) THEN <<3>> \o ProcName(steps, i)
  ELSE IF steps[i].op = "Added" THEN VarI(Len(ProcChunk(fields, steps, v, i)))
  ELSE <<1, PosByte(Gen(steps, steps[i].n), ProcPos(fields, steps, steps[i].n))>>
Procedure(fields, steps, v) ==
  LET k == Len(steps) IN
  IF k = 0 THEN <<0>> \o CatFields(fields, v, LAMBDA f : ~f.tr)
  ELSE <<k>> \o VarI(Len(ProcChunk(fields, steps, v, 0)))
       \o Flatten([i \in 1..k |-> ProcHeader(fields, steps, v, i)])
       \o Flatten([c \in 1..(k + 1) |-> ProcChunk(fields, steps, v, c - 1)])
ProcedureOf(D, v) ==
  IF D.k = "struct" THEN Procedure(D.fields, D.steps, v)
  ELSE <<0>> \o VarU(CtorIndex(D, v[2]))
       \o Procedure(D.variants[v[2]].fields, D.variants[v[2]].steps, <<20>> \o SubSeq(v, 3, Len(v)))

-----------------------------------------------------------------------------
(* Properties *)
D == Resolve(T)
Vs == DeclVals(T)
Good == {v \in Vs : ~IsTransientCtor(D, v) /\ Encode(T, v).ok}

\* C02: the mechanism produces the documented procedure's bytes and decodes back
DeriveMeansProcedure ==
  \A v \in Good : LET e == Encode(T, v) IN
    /\ e.ok /\ (HasDstr(D) \/ T \in DeclsR \/ e.b = ProcedureOf(D, v))    \* (Procedure numbers header names per record)
    /\ LET d == Decode(T, e.b) IN d.ok /\ d.v = Masked(D, v) /\ d.p = Len(e.b) + 1
\* C14: transient fields contribute nothing; transient constructors are refused
TransientInvisible ==
  \A v \in Good, w \in Good : Masked(D, v) = Masked(D, w) => Encode(T, v).b = Encode(T, w).b
TransientCtorErr ==
  \A v \in Vs \ Good : Encode(T, v) = EErr("TransientCtor")
\* C13: the leading bytes of an enum value are the version byte and the constructor index
CtorIdentity ==
  D.k = "enum" => \A v \in Good : LET e == Encode(T, v).b ix == VarU(CtorIndex(D, v[2])) IN
     SubSeq(e, 1, 1 + Len(ix)) = <<0>> \o ix
\* C07 / C08 on derived types
DeclSelfDelimiting ==
  \A v \in Good, s \in {<<0>>, <<1, 0>>, <<255>>, <<128, 128>>} :
    LET e == Encode(T, v) d == Decode(T, e.b \o s) IN d.ok /\ d.v = Masked(D, v) /\ d.p = Len(e.b) + 1
DeclPrefixRejected ==
  \A v \in Good : LET e == Encode(T, v) IN \A k \in 0..(Len(e.b) - 1) : ~Decode(T, SubSeq(e.b, 1, k)).ok

-----------------------------------------------------------------------------
(* C13: extensions.  New constructors come after the existing ones in index *)
(* order: appended in declaration order (names Xx, Yy sort last as well),   *)
(* or - for sorted enums - declared first but sorting last.                 *)
NewV1 == MkVariant(88, <<"tuple", <<U8>>>>, FALSE)
NewV2 == MkVariant(89, <<"struct", <<STR>>>>, FALSE)
Extensions(E) ==
  {[E EXCEPT !.variants = @ \o <<NewV1>>], [E EXCEPT !.variants = @ \o <<NewV1, NewV2>>]}
  \cup (IF E.sorted THEN {[E EXCEPT !.variants = <<NewV1>> \o @]} ELSE {})
\* the same constructor in the extension (declaration index may shift)
MapVal(E, E2, v) == LET j == CHOOSE j \in 1..Len(E2.variants) : E2.variants[j].n = E.variants[v[2]].n IN
                    <<21, j>> \o SubSeq(v, 3, Len(v))
IsNew(E, E2, j) == \A i \in 1..Len(E.variants) : E.variants[i].n # E2.variants[j].n
ExtensionSafe ==
  D.k = "enum" => \A E2 \in Extensions(D) :
    /\ \A v \in Good : LET d == Decode(E2, Encode(D, v).b) IN d.ok /\ d.v = MapVal(D, E2, Masked(D, v))
    /\ \A w \in {x \in EnumVals(E2) : IsNew(D, E2, x[2])} : Decode(D, Encode(E2, w).b) = DErr("BadCtor")
\* indices the definition does not know, transient ones
UnknownIdx == {U32(Len(D.variants)), U32(Len(D.variants) + 1), <<1, 0>>, <<15, P28 - 1>>}
              \cup {U32(x) : x \in {y \in {127, 128, 255, 256, 16384} : y >= Len(D.variants)}}
\* ... followed by junk, by a complete honest value, and by an honest value without its version byte (so that the
\* bytes after the unknown index are themselves an index and the record of that constructor): the stored index alone
\* decides, whatever follows it
UnknownFollowers == {<<0, 0, 0>>} \cup UNION {{Encode(D, v).b, Tail(Encode(D, v).b)} : v \in Good}
UnknownCtorErr ==
  D.k = "enum" =>
    /\ \A u \in UnknownIdx : \A f \in UnknownFollowers : Decode(D, <<0>> \o VarUW(u) \o f) = DErr("BadCtor")
    /\ \A i \in 1..Len(D.variants) : D.variants[i].tr => Decode(D, <<0>> \o VarU(CtorIndex(D, i)) \o <<0, 0>>) = DErr("TransientCtor")

-----------------------------------------------------------------------------
(* Emission *)
Case(v) ==
  LET e == Encode(T, v) IN
  IF e.ok THEN [v |-> v, b |-> e.b, alt |-> EncAlt(T, v, EmptySt).b, perms |-> {}, dv |-> Masked(D, v), encerr |-> "", ctor |-> <<>>]
  ELSE [v |-> v, b |-> <<>>, alt |-> <<>>, perms |-> {}, dv |-> v, encerr |-> e.err,
        ctor |-> IF D.k = "enum" THEN D.variants[v[2]].n ELSE <<42, 84, 109, 112>>]      \* "*Tmp": some holder of TEnum::Tmp
XCases ==   \* cross-definition cases in the format of MC_Evo: <<writer type, reader type, v, bytes, expected>>
  IF D.k # "enum" THEN {}
  ELSE UNION {
    {<<T, E2, v, Encode(D, v).b, <<"ok", MapVal(D, E2, Masked(D, v))>>>> : v \in Good}
    \cup {<<E2, T, w, Encode(E2, w).b, <<"BadCtor", <<42>>>>>> : w \in {x \in EnumVals(E2) : IsNew(D, E2, x[2])}}
    : E2 \in Extensions(D)}
RawCases ==  \* <<bytes, expected error class, constructor name or <<>>>>
  IF D.k # "enum" THEN {}
  ELSE {<<<<0>> \o VarUW(u) \o f, "BadCtor", <<>>>> : u \in UnknownIdx, f \in UnknownFollowers}
       \cup {<<<<0>> \o VarU(CtorIndex(D, i)) \o <<0, 0>>, "TransientCtor", D.variants[i].n>> : i \in {j \in 1..Len(D.variants) : D.variants[j].tr}}
HasTransient == IF D.k = "struct" THEN \E i \in 1..Len(D.fields) : D.fields[i].tr
                ELSE \E i \in 1..Len(D.variants) : D.variants[i].tr
EmitCases ==
  PrintT(<<"REPLAY", ToJson([ty |-> T, hash |-> FALSE, transient |-> HasTransient,
                             cases |-> {Case(v) : v \in Vs}, xcases |-> XCases, raw |-> RawCases])>>)
EmitMeta == PrintT(<<"META", ToJson([followers |-> FollowerSuffixes])>>)
ASSUME EmitMeta
=============================================================================
