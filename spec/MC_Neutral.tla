----------------------------- MODULE MC_Neutral -----------------------------
(***************************************************************************)
(* C09: only DeduplicatedString values (and the field names of a record's   *)
(* evolution header) touch the per-stream string table; a value of any      *)
(* other type leaves it alone, on the writer's side and on the reader's.    *)
(* For every leaf type L (and a few containers) the stream                  *)
(*     dstr "a",  L v,  dstr "b",  L v,  dstr "a",  dstr "b"               *)
(* is  "a", Enc(v), "b", Enc(v), back-reference 1, back-reference 2 and     *)
(* decodes to what was written.  (A reader that registers the text inside   *)
(* some other type - a zone name, seeded S70 - runs ahead of the writer.)    *)
(* One TLC state per type.                                                  *)
(***************************************************************************)
EXTENDS Adt, Json
VARIABLE L
Others == (Leaves \ {K("unit")}) \cup {OptT(STR), [k |-> "vec", e |-> STR], [k |-> "tup", es |-> <<STR, K("tz")>>], [k |-> "bmap", a |-> STR, b |-> STR]}
Init == L \in Others
Next == UNCHANGED L
Spec == Init /\ [][Next]_L
DS == K("dstr")
A == <<3, 97>>
B == <<3, 98>>
V == Last(VS(L))
Types == <<DS, L, DS, L, DS, DS>>
Vals6 == <<A, V, B, V, A, B>>
E == EncTs("canon", Types, <<0>> \o Vals6, 1, 1, EmptySt)
Neutral ==
  /\ E.ok
  /\ E.b = EncStrBytes(<<97>>) \o Encode(L, V).b \o EncStrBytes(<<98>>) \o Encode(L, V).b \o VarI(-1) \o VarI(-2)
  /\ LET d == DecTs(Types, E.b, 1, Len(E.b), EmptySt, 1, <<>>) IN d.ok /\ d.vs = Vals6 /\ d.p = Len(E.b) + 1
EmitCases == PrintT(<<"REPLAY", ToJson([ty |-> L, v |-> V, b |-> E.b])>>)
=============================================================================
