SPECIFICATION Spec
INVARIANTS EvolutionOutcome KindsMeanOutcome EvolvedSelfDelimiting EvolvedPrefixRejected EmitCases
CHECK_DEADLOCK FALSE
CONSTANTS
 MaxSteps = 1
 Rich = FALSE
 Embs = {"Top", "InTuple"}
 NoExclusion = FALSE
 NoLastRule = FALSE
 HalfLegal = FALSE
 SampleMod = 1
 SamplePhase = 0
