--------------------------- MODULE MC_Containers ---------------------------
(***************************************************************************)
(* C12: the encoding of a sequence depends only on its elements.  For      *)
(* every element type E, element list xs (length 0..3, duplicates          *)
(* included), source container S and target container D of the family:     *)
(*   Dec(D<E>, Enc(S<E>, S(xs))) = D(xs)   and                             *)
(*   Dec(D<E>, UnknownForm(xs))  = D(xs)                                   *)
(* where D(xs) applies the target's own semantics (order kept / set /      *)
(* map with last value winning / exactly N elements).  Byte containers are *)
(* interchangeable among themselves.  One TLC state per (E, xs).           *)
(***************************************************************************)
EXTENDS Adt, Json
VARIABLES E, xs
vars == <<E, xs>>

Pair == [k |-> "tup", es |-> <<U8, STR>>]
ElemTypes == {K("u16"), STR, OptT(U8), K("bool"), K("vecu8"), Pair, [k |-> "vec", e |-> K("u16")]}
\* two or three distinct values of E (pairs: two keys, two values)
Pool(T) == IF T = Pair THEN {<<10, <<0, 1>>, <<3, 97>>>>, <<10, <<0, 1>>, <<3, 98>>>>, <<10, <<0, 2>>, <<3, 97>>>>}
           ELSE {VS(T)[1], VS(T)[Len(VS(T))], VS(T)[Min(2, Len(VS(T)))]}
Lists(T) == UNION {[1..n -> Pool(T)] : n \in 0..3}

Init == E \in ElemTypes /\ xs \in Lists(E)
Next == UNCHANGED vars
Spec == Init /\ [][Next]_vars

SeqOf == {"vec", "list", "arr", "bset", "hset"}
Ctr(c) == IF c = "arr" THEN [k |-> "arr", n |-> Len(xs), e |-> E] ELSE [k |-> c, e |-> E]
ContN(c, n) == IF c = "arr" THEN [k |-> "arr", n |-> n, e |-> E] ELSE [k |-> c, e |-> E]
MapT(c) == [k |-> c, a |-> U8, b |-> STR]
Sources == IF E = Pair THEN {Ctr("vec"), Ctr("list"), Ctr("arr"), MapT("bmap"), MapT("hmap")}
           ELSE {Ctr(c) : c \in IF KeyOk(E) THEN SeqOf ELSE {"vec", "list", "arr"}} \ (IF Hashable(E) THEN {} ELSE {Ctr("list")})
Targets == Sources \cup {ContN("arr", Len(xs) + 1)} \cup (IF Len(xs) > 0 THEN {ContN("arr", Len(xs) - 1)} ELSE {})

\* the value a container holds when built from xs, and what a target must contain
Holds(C, items) ==
  IF C.k \in SetKinds THEN <<8>> \o SortSet(C.e, items, <<>>)
  ELSE IF C.k \in MapKinds THEN <<8>> \o SortMap(C.a, items, <<>>)
  ELSE <<8>> \o items
\* items as a source emits them (sets and maps iterate in their own order)
Emitted(S) == Tail(Holds(S, xs))
Want(D, items) == IF D.k = "arr" /\ D.n # Len(items) THEN DErr("BadLength") ELSE [ok |-> TRUE, v |-> Holds(D, items)]

ContainerIndependent ==
  \A S \in Sources, D \in Targets :
    LET e == Encode(S, Holds(S, xs)) d == Decode(D, e.b) w == Want(D, Emitted(S)) IN
    IF w.ok THEN d.ok /\ d.v = w.v /\ d.p = Len(e.b) + 1 ELSE ~d.ok
FormIndependent ==
  \A D \in Targets :
    LET e == EncUnknownForm(Ctr("vec"), <<8>> \o xs, EmptySt) d == Decode(D, e.b) w == Want(D, xs) IN
    IF w.ok THEN d.ok /\ d.v = w.v /\ d.p = Len(e.b) + 1 ELSE ~d.ok
\* the encoding depends only on the elements: all order-preserving sources produce the same bytes
SameBytes ==
  \A S1 \in Sources, S2 \in Sources :
    (S1.k \in {"vec", "list", "arr"} /\ S2.k \in {"vec", "list", "arr"}) => Encode(S1, <<8>> \o xs).b = Encode(S2, <<8>> \o xs).b

\* byte containers among themselves
ByteLists == {<<>>, <<0>>, <<255, 1, 128>>}
ByteConts(n) == {K("vecu8"), K("bytes"), [k |-> "arru8", n |-> n]}
BytesInterchangeable ==
  (E = STR /\ xs = <<>>) =>      \* checked once
    \A bs \in ByteLists : \A S \in ByteConts(Len(bs)), D \in ByteConts(Len(bs)) \cup {[k |-> "arru8", n |-> Len(bs) + 1]} :
      LET e == Encode(S, <<9>> \o bs) d == Decode(D, e.b) IN
      IF D.k = "arru8" /\ D.n # Len(bs) THEN ~d.ok ELSE d.ok /\ d.v = <<9>> \o bs /\ d.p = Len(e.b) + 1

XCase(S, D) == LET w == Want(D, Emitted(S)) IN
  <<S, D, Holds(S, xs), Encode(S, Holds(S, xs)).b, IF w.ok THEN <<"ok", w.v>> ELSE <<"err">>>>
UCase(D) == LET w == Want(D, xs) IN
  <<D, EncUnknownForm(Ctr("vec"), <<8>> \o xs, EmptySt).b, IF w.ok THEN <<"ok", w.v>> ELSE <<"err">>>>
ByteCases == IF E = STR /\ xs = <<>>
  THEN UNION {{<<S, D, <<9>> \o bs, Encode(S, <<9>> \o bs).b,
                 IF D.k = "arru8" /\ D.n # Len(bs) THEN <<"err">> ELSE <<"ok", <<9>> \o bs>>>> :
               S \in ByteConts(Len(bs)), D \in ByteConts(Len(bs)) \cup {[k |-> "arru8", n |-> Len(bs) + 1]}} : bs \in ByteLists}
  ELSE {}
\* hash containers whose elements touch the per-stream string table (records whose header carries a removed field's
\* name): the elements are written in SOME order, and the table is threaded through them in THAT order - the bytes
\* are the encoding of one of the permutations as a sequence
Rem1 == StructT(<<Fld(Nm(105), K("u16"), "plain", FALSE, <<>>)>>, <<Stp("Removed", <<108, 101, 103, 97, 99, 121>>, <<>>)>>)
Item(n) == <<20, <<0, 0, n>>>>
SharedT == [k |-> "hset", e |-> Rem1]
SharedV == <<8, Item(1), Item(2), Item(3)>>
SharedPerms == {Encode([k |-> "vec", e |-> Rem1], w).b : w \in OrderVariants(SharedT, SharedV)}
SharedDecodes == (E = STR /\ xs = <<>>) =>
  \A b \in SharedPerms : \E w \in OrderVariants(SharedT, SharedV) :
     LET d == Decode([k |-> "vec", e |-> Rem1], b) IN d.ok /\ d.v = w /\ d.p = Len(b) + 1
Shared == IF E = STR /\ xs = <<>> THEN {[ty |-> SharedT, v |-> SharedV, b |-> Encode([k |-> "vec", e |-> Rem1], SharedV).b, perms |-> SharedPerms]} ELSE {}
EmitCases == PrintT(<<"REPLAY", ToJson([e |-> E, xs |-> xs, x |-> {XCase(S, D) : S \in Sources, D \in Targets} \cup ByteCases,
                                        u |-> {UCase(D) : D \in Targets}, unknown |-> EncUnknownForm(Ctr("vec"), <<8>> \o xs, EmptySt).b,
                                        shared |-> Shared])>>)
=============================================================================
