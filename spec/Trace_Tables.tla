---------------------------- MODULE Trace_Tables ----------------------------
(***************************************************************************)
(* Trace validation of the string table (C09): for every replayed stream    *)
(* the writer run and then the reader run are recorded:                     *)
(*   {"ev":"begin","side":"w"|"r"}  {"ev":"str","id":i,"new":0|1,"s":text}  *)
(*   {"ev":"end","side":..}                                                 *)
(* Both sides must behave as the table of the specification (ids are        *)
(* positions, from 1, in first-occurrence order; a seen string is cited by  *)
(* its id) and the reader must end with the writer's table (TablesAgree).   *)
(***************************************************************************)
EXTENDS Integers, Sequences, Json, IOUtils, TLC
Rec == ndJsonDeserialize(IOEnv.TRACE)
VARIABLES l, table, wtable, viol
vars == <<l, table, wtable, viol>>
Flag(cond, why) == IF viol = <<>> /\ ~cond THEN <<l, why>> ELSE viol
Has(t, s) == \E i \in 1..Len(t) : t[i] = s
Init == l = 1 /\ table = <<>> /\ wtable = <<>> /\ viol = <<>>
Next == /\ l <= Len(Rec)
        /\ LET e == Rec[l] IN
           CASE e.ev = "begin" -> /\ table' = <<>> /\ wtable' = (IF e.side = "r" THEN table ELSE <<>>) /\ UNCHANGED viol
             [] e.ev = "str" /\ e.new = 1 ->
                  /\ viol' = Flag(e.id = Len(table) + 1 /\ ~Has(table, e.s), "a new string does not get the next id / was already in the table")
                  /\ table' = Append(table, e.s) /\ UNCHANGED wtable
             [] e.ev = "str" /\ e.new = 0 ->
                  /\ viol' = Flag(e.id >= 1 /\ e.id <= Len(table) /\ table[e.id] = e.s, "a back-reference does not denote the string it stands for")
                  /\ UNCHANGED <<table, wtable>>
             [] e.ev = "end" ->
                  /\ viol' = Flag(e.side = "w" \/ e.ok = 0 \/ table = wtable, "reader and writer tables differ at the end of the stream")
                  /\ UNCHANGED <<table, wtable>>
        /\ l' = l + 1
Spec == Init /\ [][Next]_vars
Accepted == IF TLCGet("stats").diameter - 1 # Len(Rec)
            THEN PrintT(<<"SHAPE", TLCGet("stats").diameter, Rec[TLCGet("stats").diameter]>>) /\ FALSE ELSE TRUE
NoViolation == viol = <<>> \/ (PrintT(<<"REJECTED", viol[1], viol[2], Rec[viol[1]]>>) /\ FALSE)
=============================================================================
