----------------------------- MODULE Compressed -----------------------------
(***************************************************************************)
(* Compressed blocks (C16).  DEFLATE itself is not specified: the payload  *)
(* z is opaque.  The frame is                                              *)
(*     var_u32(|d|)  var_u32(|z|)  z                                       *)
(* and the reader: read both varints, take exactly |z| bytes (InputEnded   *)
(* if there are fewer), inflate them.  Its first reservation is            *)
(* min(|d| announced, 64 KiB); afterwards the buffer grows geometrically   *)
(* with what is actually produced.                                         *)
(***************************************************************************)
EXTENDS Varint, FiniteSets

Frame(dlenU, z) == VarUW(dlenU) \o VarU(Len(z)) \o z

\* framing layer of the reader on bytes b from cursor 1: [ok, dlen (pair), z, p]
ReadFrame(b) ==
  LET h1 == RdVarU(b, 1, Len(b)) IN
  IF ~h1.ok THEN [ok |-> FALSE]
  ELSE LET h2 == RdVarU(b, h1.p, Len(b)) IN
    IF ~h2.ok THEN [ok |-> FALSE]
    ELSE IF ~Small(h2.u) \/ h2.u[2] > Len(b) - h2.p + 1 THEN [ok |-> FALSE]
    ELSE [ok |-> TRUE, dlen |-> h1.u, z |-> SubSeq(b, h2.p, h2.p + h2.u[2] - 1), p |-> h2.p + h2.u[2]]

\* allocation requests the reader may make while producing `produced` bytes after announcing dlenU
Cap == 65536
FirstRequest(dlenU) == IF Small(dlenU) /\ dlenU[2] <= Cap THEN dlenU[2] ELSE Cap
AllocAllowed(request, produced) == request <= (IF 2 * produced > Cap THEN 2 * produced ELSE Cap)
=============================================================================
