------------------------------ MODULE MC_Text ------------------------------
(***************************************************************************)
(* C05 / C06 for types whose value is parsed from text (String,            *)
(* DeduplicatedString, char-free: time zone names, decimals, and the       *)
(* records that embed them): well-formed UTF-8 of 1 .. 48 bytes in which    *)
(* multi-byte characters (2, 3, 4 bytes) start at every offset, so that     *)
(* EVERY byte offset is a non-boundary in some probe.  The short alphabet   *)
(* of MC_Fuzz has no multi-byte character and no string longer than three   *)
(* bytes; an error path that cuts or formats the rejected text at a fixed   *)
(* byte offset (seeded S49) is invisible there.  Also ill-formed tails:     *)
(* each probe with its last byte dropped.  One TLC state per target.        *)
(***************************************************************************)
EXTENDS Hostile, Json
VARIABLE T
CHR == K("char")
TextTypes == {STR, K("dstr"), K("tz"), K("dttz"), K("bigdec"), OptT(STR), [k |-> "vec", e |-> STR],
              [k |-> "tup", es |-> <<U8, K("tz")>>], CHR, [k |-> "vec", e |-> CHR]}
\* 16-bit code units on both sides of every edge of the surrogate range (a char is one UTF-16 code unit on the wire)
CharUnits == {<<0, 0>>, <<0, 97>>, <<215, 255>>, <<216, 0>>, <<219, 255>>, <<220, 0>>, <<222, 66>>, <<223, 255>>, <<224, 0>>, <<255, 255>>}
Init == T \in TextTypes
Next == UNCHANGED T
Spec == Init /\ [][Next]_T

Rep2(n) == [i \in 1..(2 * n) |-> IF i % 2 = 1 THEN 195 ELSE 169]                          \* e-acute
Rep3(n) == [i \in 1..(3 * n) |-> IF i % 3 = 1 THEN 230 ELSE IF i % 3 = 2 THEN 157 ELSE 177]   \* a CJK character
Rep4(n) == [i \in 1..(4 * n) |-> IF i % 4 = 1 THEN 240 ELSE IF i % 4 = 2 THEN 159 ELSE IF i % 4 = 3 THEN 152 ELSE 128]
Xs(n) == [i \in 1..n |-> 120]
Probes == {Xs(k) \o Rep2(n) : k \in 0..1, n \in {1, 8, 16, 17, 24}}
          \cup {Xs(k) \o Rep3(n) : k \in 0..2, n \in {1, 10, 11, 16}}
          \cup {Xs(k) \o Rep4(n) : k \in 0..3, n \in {1, 8, 9, 12}}
          \cup {Xs(n) : n \in {31, 32, 33, 48}}
\* the text as the payload of a value of T
Frame(s) ==
  CASE T.k \in {"str", "dstr", "bigdec"} -> EncStrBytes(s)
    [] T.k = "tz" -> <<1>> \o EncStrBytes(s)
    [] T.k = "dttz" -> Encode(K("ndt"), VS(K("ndt"))[1]).b \o <<1>> \o EncStrBytes(s)
    [] T.k = "opt" -> <<1>> \o EncStrBytes(s)
    [] T.k = "vec" -> VarI(2) \o EncStrBytes(s) \o EncStrBytes(s)
    [] T.k = "char" -> <<>>
    [] T.k = "tup" -> <<0, 7, 1>> \o EncStrBytes(s)
Inputs == IF T = CHR THEN CharUnits \cup {<<u[1]>> : u \in CharUnits}
          ELSE IF T.k = "vec" /\ T.e = CHR THEN {VarI(2) \o <<0, 97>> \o u : u \in CharUnits}
          ELSE {Frame(s) : s \in Probes} \cup {SubSeq(Frame(s), 1, Len(Frame(s)) - 1) : s \in Probes}
DecTotal == \A b \in Inputs : RefOutcome(T, b)[1] \in {"ok", "err", "unspec", "huge"}
\* well-formed text is accepted by the plain string types, whatever its length
TextAccepted == T.k \in {"str", "dstr"} => \A s \in Probes : RefOutcome(T, Frame(s)) = <<"ok", <<3>> \o s, Len(Frame(s))>>
EmitCases == PrintT(<<"REPLAY", ToJson([ty |-> T, inputs |-> {<<b, RefOutcome(T, b)>> : b \in Inputs}])>>)
=============================================================================
