SPECIFICATION Spec
INVARIANT NoViolation
POSTCONDITION Accepted
CHECK_DEADLOCK FALSE
