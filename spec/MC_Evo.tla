------------------------------- MODULE MC_Evo -------------------------------
(***************************************************************************)
(* C03 (and the evolved-record halves of C07/C08): all legal evolution      *)
(* histories up to MaxSteps over small initial records; one TLC state per   *)
(* (initial declaration, history).  For every pair of versions, every value *)
(* and every embedding the mechanism must produce the documented outcome.   *)
(***************************************************************************)
EXTENDS AdtMech, Json
CONSTANTS MaxSteps,      \* history length bound
          Rich,          \* FALSE: fields are u8 / Option<u8>; TRUE: also String and a nested record
          Embs,          \* embeddings to check
          NoExclusion,   \* TRUE: do not apply the DESIGN-9 exclusion (must then FAIL: vacuity guard)
          NoLastRule,    \* TRUE: drop "last in its chunk" from legality (must then FAIL, unless HalfLegal)
          HalfLegal,     \* TRUE (with NoLastRule): only check the direction that still works (see IrregularStep)
          SampleMod,     \* emit only histories whose fingerprint falls in 1 of SampleMod classes at full length (1 = all)
          SamplePhase    \* which class (seed-dependent)
VARIABLES D0, H
vars == <<D0, H>>

Inner == StructT(<<Fld(Nm(120), U8, "plain", FALSE, <<>>), Fld(Nm(121), STR, "plain", FALSE, <<3, 100>>)>>,
                 <<Stp("Added", Nm(121), <<3, 100>>)>>)
BaseTypes == IF Rich THEN {U8, STR, Inner} ELSE {U8}
InitTypes == BaseTypes \cup {OptT(t) : t \in {U8} \cup (BaseTypes \ {Inner})}
AddTypes == IF Rich THEN {U8, OptT(U8), STR} ELSE {U8, OptT(U8)}
NewNames == {Nm(99), Nm(100), Nm(101)}       \* c d e

F0(c, t) == Fld(Nm(c), t, IF t.k = "opt" THEN "Option" ELSE "plain", FALSE, <<>>)
Inits ==
  {StructT(<<>>, <<>>)}          \* no fields at all: chunk 0 stays empty (its size 0 reads as the "unknown" step code)
  \cup {StructT(<<F0(97, t)>>, <<>>) : t \in InitTypes}
  \cup {StructT(<<F0(97, t1), F0(98, t2)>>, <<>>) : t1 \in InitTypes, t2 \in InitTypes}
  \cup {StructT(<<F0(97, t1), [F0(98, t2) EXCEPT !.tr = TRUE, !.dv = TrDefault(t2)]>>, <<>>) : t1 \in {U8, OptT(U8)}, t2 \in {U8, OptT(U8)}}

Init == D0 \in Inits /\ H = <<>>
Next == /\ Len(H) < MaxSteps
        /\ \E st \in LegalStepsOf(Ver(D0, H, Len(H)), NewNames, AddTypes, NoLastRule) : H' = Append(H, st)
        /\ UNCHANGED D0
Spec == Init /\ [][Next]_vars

\* one (w, r, emb, v): what the mechanism produces vs. what is documented
Outcome(w, r, emb, v) ==
  LET DW == Ver(D0, H, w)
      DR == Ver(D0, H, r)
      e == Encode(EmbT(emb, DW), EmbV(emb, v))
      exp == Expected(D0, H, w, r, v) IN
  IF ~e.ok THEN [agree |-> FALSE, why |-> "encode failed", e |-> e]
  ELSE LET got == Decode(EmbT(emb, DR), e.b) IN
    IF exp.ok
    THEN [agree |-> got.ok /\ got.v = EmbV(emb, exp.v)
                    /\ ((emb = "Top" /\ Len(DW.steps) = 0) \/ got.p = Len(e.b) + 1),
          why |-> "value", got |-> got, exp |-> exp, b |-> e.b]
    ELSE [agree |-> ~got.ok /\ got.err = exp.err, why |-> "error", got |-> got, exp |-> exp, b |-> e.b]

Pairs == {<<w, r>> \in (0..Len(H)) \X (0..Len(H)) : w = Len(H) \/ r = Len(H)}
\* HalfLegal (beyond C03's quantifier): a field may be removed / made transient although other fields of its
\* chunk follow it.  Newer definitions then cannot read older data (nothing says where the dropped field's
\* bytes are), but older definitions can still read newer data, because the header names the removed field
\* and removed fields do not take a position.  Pairs that cross such a step forwards are skipped.
IrregularStep(i) == H[i].op \in {"Removed", "MadeTransient"} /\ ~LastInChunk(Ver(D0, H, i - 1), H[i].n)
CrossesForward(w, r) == \E i \in (w + 1)..r : IrregularStep(i)
Irregular == \E i \in 1..Len(H) : IrregularStep(i)
Skip(w, r, emb) == \/ (~NoExclusion /\ Excluded(emb, Ver(D0, H, w), Ver(D0, H, r)))
                   \/ (emb = "AsTupleVariant" /\ ~PositionsStable(Ver(D0, H, w), Ver(D0, H, r)))
                   \/ (emb = "AsTupleVariant" /\ Len(Ver(D0, H, w).fields) * Len(Ver(D0, H, r).fields) = 0)
                   \/ (HalfLegal /\ CrossesForward(w, r))
                   \/ (HalfLegal /\ Irregular /\ Len(Ver(D0, H, w).steps) = 0)     \* headerless data carries no names

\* C03: no other outcome is possible
EvolutionOutcome ==
  \A p \in Pairs, emb \in Embs : \A v \in StructVals(Ver(D0, H, p[1])) :
    Skip(p[1], p[2], emb) \/
    LET o == Outcome(p[1], p[2], emb, v) IN
    o.agree \/ (PrintT(<<"MISMATCH", [D0 |-> D0, H |-> H, w |-> p[1], r |-> p[2], emb |-> emb, v |-> v, o |-> o]>>) /\ FALSE)

\* C07 for evolved records: with stored version >= 1 exactly the record is consumed (top level too)
EvolvedSelfDelimiting ==
  \A p \in Pairs : \A v \in StructVals(Ver(D0, H, p[1])) :
    LET DW == Ver(D0, H, p[1]) DR == Ver(D0, H, p[2])
        e == Encode(DW, v) exp == Expected(D0, H, p[1], p[2], v) IN
    (Len(DW.steps) > 0 /\ exp.ok /\ ~Skip(p[1], p[2], "Top")) =>
      \A s \in {<<0>>, <<1, 0>>, <<255>>} : LET d == Decode(DR, e.b \o s) IN d.ok /\ d.p = Len(e.b) + 1

\* C08 for evolved records: with stored version >= 1 every strict prefix is rejected by every version
EvolvedPrefixRejected ==
  \A p \in Pairs : \A v \in StructVals(Ver(D0, H, p[1])) :
    LET DW == Ver(D0, H, p[1]) DR == Ver(D0, H, p[2]) e == Encode(DW, v) IN
    (Len(DW.steps) > 0 /\ ~Skip(p[1], p[2], "Top")) => \A k \in 0..(Len(e.b) - 1) : ~Decode(DR, SubSeq(e.b, 1, k)).ok

\* the decision table of AdtMech.tla (what Trace_Adt validates the implementation's recorded decisions
\* against) refines the documented outcome: the decision taken for a field fixes the class of its outcome,
\* and the decisions stop early exactly when the documented outcome is an error
KindsMeanOutcome ==
  NoLastRule \/
  \A p \in Pairs : \A v \in StructVals(Ver(D0, H, p[1])) :
    LET DW == Ver(D0, H, p[1]) DR == Ver(D0, H, p[2])
        ks == Kinds(DW, DR)
        ser == Written(DR.fields) IN
    /\ Len(ks) <= Len(ser)
    /\ \A j \in 1..Len(ks) : KindAllows(ks[j], OutcomeClass(D0, H, p[1], p[2], v, ser[j]))
    /\ (Len(ks) < Len(ser) => ~Expected(D0, H, p[1], p[2], v).ok)

-----------------------------------------------------------------------------
(* Emission: per state the cases whose newest version is the last one.      *)
(* Types are given once per state (vers); a case names them by version      *)
(* number and embedding: <<w, r, emb, v, bytes, expected>>.                 *)
Case(w, r, emb, v) ==
  LET DW == Ver(D0, H, w)
      exp == Expected(D0, H, w, r, v) IN
  <<w, r, emb, EmbV(emb, v), Encode(EmbT(emb, DW), EmbV(emb, v)).b,
    IF exp.ok THEN <<"ok", EmbV(emb, exp.v)>>
    ELSE <<exp.err, IF emb = "AsTupleVariant" THEN PosName(Ver(D0, H, r), exp.field) ELSE exp.field>>>>
CasesFor(p) == UNION { {Case(p[1], p[2], emb, v) : v \in StructVals(Ver(D0, H, p[1]))} :
                       emb \in {e \in Embs : ~Skip(p[1], p[2], e)} }
Cases == UNION {CasesFor(p) : p \in Pairs}
Selected == SampleMod = 1 \/ Len(H) < MaxSteps \/ Len(ToString(<<D0, H>>)) % SampleMod = SamplePhase % SampleMod
EmitCases ==
  ~Selected \/
  PrintT(<<"REPLAY", ToJson([vers |-> [k \in 1..(Len(H) + 1) |-> Ver(D0, H, k - 1)], cases |-> Cases])>>)
EmitMeta == PrintT(<<"META", ToJson([followers |-> FollowerSuffixes])>>)
ASSUME EmitMeta
=============================================================================
