----------------------------- MODULE MC_Writer -----------------------------
(* Writer.tla explored exhaustively: writes of 0..2 bytes, records of up to 2 steps, MaxFrames levels of nesting,
   MaxPayload bytes (quick: 2 / 4; thorough: 3 / 6 = 32.5 million states). *)
EXTENDS Writer
CONSTANTS MaxFrames, MaxPayload
Next == \/ \E n \in 0..2 : Write(n)
        \/ \E k \in 0..2, b \in BOOLEAN : (b <=> k > 0) /\ Open(k, b)
        \/ \E c \in 0..2 : Field(c)
        \/ EndField \/ Finish \/ HeaderDone \/ Close
Spec == Init /\ [][Next]_vars
Bound == Len(frames) <= MaxFrames /\ payload <= MaxPayload /\ out + SumSeqN(bufs) <= 2 * MaxPayload
=============================================================================
