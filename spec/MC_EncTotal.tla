---------------------------- MODULE MC_EncTotal ----------------------------
(***************************************************************************)
(* C17: encoding is total - Ok(bytes) or one of the documented errors.     *)
(* Classes of values that cannot be encoded: characters outside the BMP    *)
(* (anywhere in a value: the error propagates and no bytes are handed      *)
(* back), counts that do not fit the format's 31-bit (zig-zag) or 32-bit   *)
(* (byte runs) lengths, transient constructors and dangling evolution      *)
(* references (the last two live in MC_Decl).  One TLC state per type.     *)
(***************************************************************************)
EXTENDS Adt, Json
VARIABLE T
CH == K("char")
CharHolder == StructT(<<Fld(Nm(97), U8, "plain", FALSE, <<>>), Fld(Nm(99), CH, "plain", FALSE, <<0, 0, 120>>)>>,
                      <<Stp("Added", Nm(99), <<0, 0, 120>>)>>)
Types == {CH, OptT(CH), [k |-> "vec", e |-> CH], [k |-> "tup", es |-> <<U8, CH, STR>>], [k |-> "res", a |-> CH, b |-> U8],
          [k |-> "hmap", a |-> U8, b |-> CH], CharHolder, [k |-> "box", e |-> CH]}
\* evolution steps that name a field the record does not have ("ghost": the usual mistake of deleting a
\* field without a FieldRemoved step), alone and combined with each other and with a step on a real field:
\* all step lists up to GhostLen.  Only FieldMadeOptional needs the field: it is an error unless the name
\* was also removed / made transient.  A record at the limit of 254 declared steps (255 with the initial version)
CONSTANT GhostLen
Ghost == Nm(122)
OptF == Nm(111)
GhostFields == <<Fld(Nm(97), U8, "plain", FALSE, <<>>), Fld(OptF, OptT(U8), "plain", FALSE, <<>>)>>
StepPool == {Stp("Added", Ghost, <<>>), Stp("MadeOptional", Ghost, <<>>), Stp("Removed", Ghost, <<>>), Stp("MadeTransient", Ghost, <<>>),
             Stp("MadeOptional", OptF, <<>>)}
StepLists == UNION {[1..n -> StepPool] : n \in 1..GhostLen}
Danglings == {StructT(GhostFields, sl) : sl \in {x \in StepLists : \E i \in 1..Len(x) : x[i].n = Ghost}}
IsDangling(D) == \E i \in 1..Len(D.steps) :
   D.steps[i].op = "MadeOptional" /\ FieldIdx(D, D.steps[i].n) = 0 /\ D.steps[i].n \notin RemovedNames(D.steps)
BigName(i) == <<114, 48 + (i \div 100), 48 + ((i \div 10) % 10), 48 + (i % 10)>>
AtLimit == StructT(<<Fld(Nm(97), U8, "plain", FALSE, <<>>), Fld(Nm(98), STR, "plain", FALSE, <<>>)>>,
                   [i \in 1..254 |-> Stp("Removed", BigName(i), <<>>)])
DeclTypes == Danglings \cup {AtLimit}
Init == T \in Types \cup DeclTypes
Next == UNCHANGED T
Spec == Init /\ [][Next]_T

\* one representative per class of scalar value: below / above the surrogate gap, the last BMP
\* character, the first and the last supplementary character
Chars == <<<<0, 0, 97>>, <<0, 215, 255>>, <<0, 224, 0>>, <<0, 255, 255>>, <<0, 1, 0, 0>>, <<0, 16, 255, 255>>, <<0, 1, 244, 0>>>>
Wrap(c) ==
  CASE T = CH -> c
    [] T.k = "opt" -> <<5, c>>
    [] T.k = "vec" -> <<8, <<0, 0, 120>>, c>>
    [] T.k = "tup" -> <<10, <<0, 1>>, c, <<3, 97>>>>
    [] T.k = "res" -> <<6, c>>
    [] T.k = "hmap" -> <<8, <<10, <<0, 1>>, c>>>>
    [] T.k = "struct" -> <<20, <<0, 1>>, c>>
    [] T.k = "box" -> c
Encodable(c) == Len(c) = 3
\* C17: the outcome is Ok exactly for 16-bit characters and the dedicated error otherwise
EncTotal ==
  IF T \in DeclTypes
  THEN \A v \in StructVals(T) : LET e == Encode(T, v) IN
         IF T \in Danglings /\ IsDangling(T) THEN e = EErr("UnknownFieldRef")
         ELSE e.ok /\ LET d == Decode(T, e.b) IN d.ok /\ d.v = v /\ d.p = Len(e.b) + 1
  ELSE \A i \in 1..Len(Chars) : LET e == Encode(T, Wrap(Chars[i])) IN
         IF Encodable(Chars[i]) THEN e.ok ELSE e = EErr("UnsupportedChar")

\* lengths: what the writer must answer for a count of the given class (symbolic: TLC cannot hold them)
LenClasses == {"i32max", "i32max+1", "u32max", "u32max+1"}
LengthOutcome(kind, class) ==      \* kind: "zigzag" (strings, sequences) or "bytes" (byte runs)
  IF kind = "zigzag" THEN (IF class = "i32max" THEN "ok" ELSE "BadLength")
  ELSE (IF class = "u32max+1" THEN "BadLength" ELSE "ok")

\* size hints of the sequence writer: the known-length form is taken exactly when the hint is exact (lower bound =
\* upper bound); every other truthful hint - however loose, whatever its bounds - selects the unknown-length form
\* and has no further effect on the bytes or on the outcome.  A hint is <<min, kind, max>>, kind "none" (no upper
\* bound), "some" (max), "usizeMax" / "usizeMax-1" (the largest bounds a std adapter reports), "2^31" / "2^32" (bounds beyond the counts of the format).
HintsFor(n) == {<<n, "some", n>>, <<0, "none", 0>>, <<n, "none", 0>>, <<0, "some", n>>, <<0, "some", n + 1>>, <<n, "some", n + 1000>>,
                <<0, "usizeMax", 0>>, <<n, "usizeMax", 0>>, <<0, "usizeMax-1", 0>>, <<0, "2^31", 0>>, <<n, "2^32", 0>>}
HintExact(h) == h[2] = "some" /\ h[3] = h[1]
HintItems(n) == [i \in 1..n |-> i]
HintBytes(h, n) == IF HintExact(h) THEN VarI(n) \o HintItems(n)
                   ELSE VarI(-1) \o SX!FoldLeft(LAMBDA acc, x : acc \o <<1, x>>, <<>>, HintItems(n)) \o <<0>>
HintCases == {<<h, n, HintBytes(h, n)>> : h \in HintsFor(0) \cup HintsFor(1) \cup HintsFor(3), n \in {0, 1, 3}}
HintCasesTruthful == {c \in HintCases : c[1][1] <= c[2] /\ (c[1][2] # "some" \/ c[2] <= c[1][3])}

\* a codec that makes a top-level call of its own: an envelope <<dstr "a", the inner encoding as a byte array, dstr "a">>
\* around the tuple <<"x", c, dstr "b", dstr "b">>.  The inner call has its own tables (the repeat of "b" is its id 1),
\* the outer table still holds exactly "a" afterwards (the repeat is a back-reference to id 1), and an unsupported
\* character inside is an error of the outer call.
InnerT == [k |-> "tup", es |-> <<STR, CH, K("dstr"), K("dstr")>>]
InnerV(c) == <<10, <<3, 120>>, c, <<3, 98>>, <<3, 98>>>>
Nested(c) == LET i == Encode(InnerT, InnerV(c)) IN
  IF ~i.ok THEN <<c, FALSE, i.err, <<>>>>
  ELSE <<c, TRUE, "", EncStrBytes(<<97>>) \o Encode(K("vecu8"), <<9>> \o i.b).b \o VarI(-1)>>
NestedCases == IF T = CH THEN {Nested(Chars[i]) : i \in 1..Len(Chars)} ELSE {}
NestedOK == \A i \in 1..Len(Chars) : Nested(Chars[i])[2] = Encodable(Chars[i])

CaseOf(v) == LET e == Encode(T, v) IN [v |-> v, ok |-> e.ok, err |-> IF e.ok THEN "" ELSE e.err, b |-> IF e.ok THEN e.b ELSE <<>>]
EmitCases == PrintT(<<"REPLAY", ToJson([ty |-> T, cases |-> IF T \in DeclTypes THEN {CaseOf(v) : v \in StructVals(T)}
                                                              ELSE {CaseOf(Wrap(Chars[i])) : i \in 1..Len(Chars)},
                        lengths |-> {<<k, c, LengthOutcome(k, c)>> : k \in {"zigzag", "bytes"}, c \in LenClasses},
                        hints |-> HintCasesTruthful,
                        nested |-> NestedCases])>>)
=============================================================================
