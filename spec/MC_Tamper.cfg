SPECIFICATION Spec
INVARIANTS TamperTotal BasesValid EmitCases
CHECK_DEADLOCK FALSE
CONSTANTS
 Depth = 1
 MaxEnc = 24
