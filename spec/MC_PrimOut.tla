----------------------------- MODULE MC_PrimOut -----------------------------
(***************************************************************************)
(* C15 (output side): the primitive writers as a state machine over the    *)
(* bytes written so far.  Every script of up to MaxOps primitive writes    *)
(* over boundary arguments.  Every sink (Vec<u8>, BytesMut, a two-method   *)
(* user sink, SizeCalculator), used directly and through a                 *)
(* SerializationContext, must hold exactly these bytes (SizeCalculator:    *)
(* their number), and reading the bytes back with the matching primitive   *)
(* readers of every source returns the arguments and ends at the end.      *)
(*                                                                         *)
(* A fixed-width argument is given as its big-endian two's-complement      *)
(* pattern (the harness builds the number with from_be_bytes): the         *)
(* statement is "write_T(v) emits the big-endian pattern of v".            *)
(* One TLC state per first operation.                                      *)
(***************************************************************************)
EXTENDS Varint, TLC, Json, FiniteSets
CONSTANT MaxOps
VARIABLE first

Z(n) == [i \in 1..n |-> 0]
FF(n) == [i \in 1..n |-> 255]
Cnt(n) == [i \in 1..n |-> i]
Patterns(w) == {Z(w), FF(w), <<128>> \o Z(w - 1), <<127>> \o FF(w - 1), Cnt(w), Z(w - 1) \o <<1>>}
Fixed == {<<"u8", 1>>, <<"i8", 1>>, <<"u16", 2>>, <<"i16", 2>>, <<"u32", 4>>, <<"i32", 4>>, <<"f32", 4>>,
          <<"u64", 8>>, <<"i64", 8>>, <<"f64", 8>>, <<"u128", 16>>, <<"i128", 16>>}
LoEdges == {0, 127, 128, 16383, 16384, 2097151, 2097152, P28 - 1}
UArgs == {<<h, l>> : h \in {0, 1, 15}, l \in LoEdges}
IArgs == {0, -1, 63, 64, -64, -65, 8191, 8192, -8192, -8193, 1048575, 1048576, -1048576, -1048577,
          134217727, 134217728, -134217728, -134217729, 2147483647, -2147483647 - 1}
Run(n) == [i \in 1..n |-> i % 251]
Ops == UNION {{<<"fixed", f[1], p>> : p \in Patterns(f[2])} : f \in Fixed}
       \cup {<<"varu", u[1], u[2]>> : u \in UArgs}
       \cup {<<"vari", k>> : k \in IArgs}
       \cup {<<"bytes", Run(n)>> : n \in {0, 1, 3, 300}}

BytesOf(op) ==
  CASE op[1] = "fixed" -> op[3]
    [] op[1] = "varu" -> VarUW(<<op[2], op[3]>>)
    [] op[1] = "vari" -> VarI(op[2])
    [] op[1] = "bytes" -> op[2]

Init == first \in Ops
Next == UNCHANGED first
Spec == Init /\ [][Next]_first

Scripts == {<<first>>} \cup (IF MaxOps >= 2 THEN {<<first, o>> : o \in Ops} ELSE {})
                       \cup (IF MaxOps >= 3 THEN {<<first, o, q>> : o \in Ops, q \in Ops} ELSE {})
RECURSIVE Out(_)
Out(s) == IF s = <<>> THEN <<>> ELSE BytesOf(Head(s)) \o Out(Tail(s))

\* the writers are injective on each width class and self-delimiting in a script: reading an
\* operation's bytes with the matching reader consumes exactly them (var-ints: the reference reader)
ReadBack == \A op \in Ops :
  CASE op[1] = "varu" -> RdVarU(BytesOf(op) \o <<128>>, 1, Len(BytesOf(op)) + 1) = [ok |-> TRUE, u |-> <<op[2], op[3]>>, p |-> Len(BytesOf(op)) + 1]
    [] op[1] = "vari" -> RdVarI(BytesOf(op) \o <<128>>, 1, Len(BytesOf(op)) + 1) = [ok |-> TRUE, x |-> op[2], p |-> Len(BytesOf(op)) + 1]
    [] OTHER -> TRUE
EmitCases == PrintT(<<"REPLAY", ToJson([scripts |-> {[ops |-> s, out |-> Out(s)] : s \in Scripts}])>>)
=============================================================================
