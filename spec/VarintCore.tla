---------------------------- MODULE VarintCore ----------------------------
(***************************************************************************)
(* Variable-length 32-bit integers of the desert format.                   *)
(*                                                                         *)
(* A 32-bit quantity x is seen only through its five 7-bit groups          *)
(* Grp(x,0) .. Grp(x,4) (Grp(x,4) has 4 bits).  The module is instantiated *)
(*   - over pairs <<hi4, lo28>> for TLC (Java ints stop at 2^31), and      *)
(*   - over unbounded Int for Apalache (VarintInt.tla),                    *)
(* so the same text is model-checked on boundaries and proved for all 2^32 *)
(* values.                                                                 *)
(*                                                                         *)
(* Format (desert documentation, "variable length integer"): groups are    *)
(* emitted least-significant first, 7 bits per byte, bit 7 set on every    *)
(* byte but the last; the minimal number of bytes is used.                 *)
(***************************************************************************)
EXTENDS Integers, Sequences

CONSTANT
  \* @type: (Int, Int) => Int;
  Grp(_, _)

Width(x) == IF Grp(x, 4) # 0 THEN 5
            ELSE IF Grp(x, 3) # 0 THEN 4
            ELSE IF Grp(x, 2) # 0 THEN 3
            ELSE IF Grp(x, 1) # 0 THEN 2 ELSE 1

\* byte i (0-based) of the encoding
VByte(x, i) == IF i + 1 < Width(x) THEN Grp(x, i) + 128 ELSE Grp(x, i)

\* @type: Int => Seq(Int);
EncVarU(x) ==
  IF Width(x) = 1 THEN <<VByte(x, 0)>>
  ELSE IF Width(x) = 2 THEN <<VByte(x, 0), VByte(x, 1)>>
  ELSE IF Width(x) = 3 THEN <<VByte(x, 0), VByte(x, 1), VByte(x, 2)>>
  ELSE IF Width(x) = 4 THEN <<VByte(x, 0), VByte(x, 1), VByte(x, 2), VByte(x, 3)>>
  ELSE <<VByte(x, 0), VByte(x, 1), VByte(x, 2), VByte(x, 3), VByte(x, 4)>>

(***************************************************************************)
(* The reader.  It is the unrolled five-step reader of the implementation  *)
(* including its leniencies (DESIGN 4.5 L2): over-long encodings are       *)
(* accepted; of a fifth byte only bits 0-3 are used and its continuation   *)
(* bit is ignored.  avail = number of bytes readable starting at s[p].     *)
(* Result: groups g0..g4, n = bytes consumed; ok = FALSE iff input ended.  *)
(***************************************************************************)
Low7(c) == IF c >= 128 THEN c - 128 ELSE c

\* @type: (Seq(Int), Int, Int) => {ok: Bool, g: Seq(Int), n: Int};
ReadGroups(s, p, avail) ==
  IF avail < 1 THEN [ok |-> FALSE, g |-> <<0, 0, 0, 0, 0>>, n |-> 0]
  ELSE IF s[p] < 128 THEN [ok |-> TRUE, g |-> <<s[p], 0, 0, 0, 0>>, n |-> 1]
  ELSE IF avail < 2 THEN [ok |-> FALSE, g |-> <<0, 0, 0, 0, 0>>, n |-> 1]
  ELSE IF s[p + 1] < 128 THEN [ok |-> TRUE, g |-> <<Low7(s[p]), s[p + 1], 0, 0, 0>>, n |-> 2]
  ELSE IF avail < 3 THEN [ok |-> FALSE, g |-> <<0, 0, 0, 0, 0>>, n |-> 2]
  ELSE IF s[p + 2] < 128 THEN [ok |-> TRUE, g |-> <<Low7(s[p]), Low7(s[p + 1]), s[p + 2], 0, 0>>, n |-> 3]
  ELSE IF avail < 4 THEN [ok |-> FALSE, g |-> <<0, 0, 0, 0, 0>>, n |-> 3]
  ELSE IF s[p + 3] < 128 THEN [ok |-> TRUE, g |-> <<Low7(s[p]), Low7(s[p + 1]), Low7(s[p + 2]), s[p + 3], 0>>, n |-> 4]
  ELSE IF avail < 5 THEN [ok |-> FALSE, g |-> <<0, 0, 0, 0, 0>>, n |-> 4]
  ELSE [ok |-> TRUE, g |-> <<Low7(s[p]), Low7(s[p + 1]), Low7(s[p + 2]), Low7(s[p + 3]), s[p + 4] % 16>>, n |-> 5]

\* @type: Int => Seq(Int);
GroupsOf(x) == <<Grp(x, 0), Grp(x, 1), Grp(x, 2), Grp(x, 3), Grp(x, 4)>>

(***************************************************************************)
(* Properties (C11), stated for one x; the instantiating module quantifies. *)
(***************************************************************************)
\* decoding the encoding gives back the groups of x and consumes all of it
VarBijective(x) ==
  LET e == EncVarU(x) r == ReadGroups(e, 1, Len(e)) IN
  r.ok /\ r.g = GroupsOf(x) /\ r.n = Len(e)

\* the continuation bit is set on every byte but the last
ContBits(x) ==
  LET e == EncVarU(x) IN
  /\ Len(e) = Width(x)
  /\ e[Len(e)] < 128
  /\ (Len(e) >= 2 => e[1] >= 128)
  /\ (Len(e) >= 3 => e[2] >= 128)
  /\ (Len(e) >= 4 => e[3] >= 128)
  /\ (Len(e) >= 5 => e[4] >= 128)

\* a strict prefix of an encoding is never complete
PrefixIncomplete(x) ==
  LET e == EncVarU(x) IN
  /\ (Len(e) >= 2 => ~ReadGroups(e, 1, 1).ok)
  /\ (Len(e) >= 3 => ~ReadGroups(e, 1, 2).ok)
  /\ (Len(e) >= 4 => ~ReadGroups(e, 1, 3).ok)
  /\ (Len(e) >= 5 => ~ReadGroups(e, 1, 4).ok)
=============================================================================
