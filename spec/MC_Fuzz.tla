------------------------------ MODULE MC_Fuzz ------------------------------
(***************************************************************************)
(* C05 / C06 on raw input: every byte string up to MaxLen over the hostile *)
(* alphabet, for every target type.  TLC evaluating the reference decoder  *)
(* on all of them without an evaluation error is DecTotal; the outcomes    *)
(* that are not plain errors are emitted (everything else is an error).    *)
(***************************************************************************)
EXTENDS Hostile, Json
CONSTANTS MaxLen,
          Dedup        \* FALSE: every target type over the general alphabet; TRUE: the string-table targets over DedupAlphabet
VARIABLE T
Init == T \in IF Dedup THEN DedupTargets ELSE FuzzTypes
Next == UNCHANGED T
Spec == Init /\ [][Next]_T

Alpha == IF Dedup THEN DedupAlphabet ELSE Alphabet
Inputs == StringsOver(Alpha, MaxLen)
\* the reference decoder is total: one of the four outcome classes on every input,
\* and an accepted value never claims more bytes than there are
DecTotal ==
  \A b \in Inputs : LET o == RefOutcome(T, b) IN
    /\ o[1] \in {"ok", "err", "unspec", "huge"}
    /\ (o[1] = "ok" => o[3] <= Len(b))
\* C06 (spec side): what is accepted is self-delimiting - re-decoding exactly the consumed bytes gives the same value
AcceptedIsStable ==
  \A b \in Inputs : LET o == RefOutcome(T, b) IN
    o[1] = "ok" => LET o2 == RefOutcome(T, SubSeq(b, 1, o[3])) IN o2[1] = "ok" /\ o2[2] = o[2] /\ o2[3] = o[3]

NonErr == {<<b, RefOutcome(T, b)>> : b \in {x \in Inputs : RefOutcome(T, x)[1] # "err"}}
EmitCases == PrintT(<<"REPLAY", ToJson([ty |-> T, alphabet |-> Alpha, maxlen |-> MaxLen, nonerr |-> NonErr])>>)
=============================================================================
