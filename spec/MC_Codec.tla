------------------------------ MODULE MC_Codec ------------------------------
(***************************************************************************)
(* C01, C04, C07, C08 (and the form half of C12) decided on the functional *)
(* layer for every type expression of the bounded universe and every       *)
(* boundary value; one TLC state per type expression.  EmitCases prints    *)
(* one JSON line per type carrying the specification's answers, which the  *)
(* harness replays into the implementation.                                *)
(***************************************************************************)
EXTENDS Universe, Json
CONSTANTS Depth,         \* complete up to this nesting depth
          ExtraDepth,    \* additionally a sample of the types of this depth (0: none)
          SampleMod, SamplePhase
VARIABLE T
Sampled(t) == Len(ToString(t)) % SampleMod = SamplePhase % SampleMod
Init == T \in TypesAt(Depth) \cup {t \in TypesAt(ExtraDepth) : Sampled(t)}
Next == UNCHANGED T
Spec == Init /\ [][Next]_T

Suffixes == {<<>>, <<0>>, <<1>>, <<255>>, <<1, 0>>, <<128, 128>>}

\* C01 on the format: decoding the encoding gives the value back and consumes all of it
RoundTrip ==
  \A v \in Vals(T) :
    LET e == Encode(T, v) IN
    e.ok /\ LET d == Decode(T, e.b) IN d.ok /\ d.v = v /\ d.p = Len(e.b) + 1

\* C07: whatever follows, exactly the encoding is consumed
SelfDelimiting ==
  \A v \in Vals(T), s \in Suffixes \cup FollowerSuffixes :
    LET e == Encode(T, v) d == Decode(T, e.b \o s) IN d.ok /\ d.v = v /\ d.p = Len(e.b) + 1

\* C08: every strict prefix is rejected
PrefixRejected ==
  \A v \in Vals(T) :
    LET e == Encode(T, v) IN \A k \in 0..(Len(e.b) - 1) : ~Decode(T, SubSeq(e.b, 1, k)).ok

\* C08 also for the other legal forms (unknown-length sequences as serialize_iterator writes them for
\* iterators without an exact size hint, chunked tuples)
AltPrefixRejected ==
  \A v \in Vals(T) :
    LET a == EncAlt(T, v, EmptySt) IN \A k \in 0..(Len(a.b) - 1) : ~Decode(T, SubSeq(a.b, 1, k)).ok

\* C04 / C12: the alternative legal forms denote the same value
FormsDecode ==
  \A v \in Vals(T) :
    LET a == EncAlt(T, v, EmptySt) d == Decode(T, a.b) IN d.ok /\ d.v = v /\ d.p = Len(a.b) + 1

\* C04: any element order of a hash container denotes the same value
OrderIrrelevant ==
  \A v \in Vals(T) : \A w \in OrderVariants(T, v) :
    LET e == Encode(T, w) d == Decode(T, e.b) IN d.ok /\ d.v = v

Case(v) == [v |-> v, b |-> Encode(T, v).b, alt |-> EncAlt(T, v, EmptySt).b,
            \* all element orders of a top-level hash container - unless its elements contain hash containers
            \* themselves (then the harness compares lengths and byte multisets)
            perms |-> IF T.k \in {"hset", "hmap"} /\ ~HasHash(ElemT(T)) THEN {Encode(T, w).b : w \in OrderVariants(T, v)} ELSE {}]
EmitCases ==
  PrintT(<<"REPLAY", ToJson([ty |-> T, hash |-> HasHash(T), cases |-> [i \in 1..Len(VS(T)) |-> Case(VS(T)[i])]])>>)
EmitMeta == PrintT(<<"META", ToJson([suffixes |-> Suffixes \cup FollowerSuffixes])>>)
ASSUME EmitMeta
=============================================================================
