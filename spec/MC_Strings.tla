----------------------------- MODULE MC_Strings -----------------------------
(***************************************************************************)
(* C09: the per-stream string table.  All sequences of up to MaxW writes,  *)
(* each a deduplicated or a plain string over {"a", "b", "gone"}, placed   *)
(* in a flat stream, a tuple, a vector, a headerless record, evolved       *)
(* records (added field declared last / first) without and with field names in the header (the name "gone"     *)
(* collides with a value on purpose), and two such records in a vector.    *)
(* One TLC state per (kind pattern, placement).                            *)
(*                                                                         *)
(* Writer and reader tables are the same object in this specification      *)
(* (Codec!StoreString is used by Enc and Dec alike, ids are positions), so *)
(* "identical ids in identical order" is the round trip of the composed    *)
(* run; the byte-level claims are stated separately.                       *)
(***************************************************************************)
EXTENDS Adt, Json
CONSTANT MaxW
VARIABLES ks, pl
vars == <<ks, pl>>

A == <<97>>
B == <<98>>
Gone == <<103, 111, 110, 101>>
Strs == {A, B, Gone, <<>>}      \* the empty string takes an id like any other
Kinds == {"dstr", "str"}
Placements == {"stream", "tuple", "vec", "v0", "evoPlain", "evoFirst", "evoGone", "evoTrans", "vec2"}
Patterns == UNION {[1..n -> Kinds] : n \in 1..MaxW}

Init == ks \in Patterns /\ pl \in Placements /\ (pl = "vec" => \A i \in 1..Len(ks) : ks[i] = "dstr")
Next == UNCHANGED vars
Spec == Init /\ [][Next]_vars

FName(i) == Nm(111 + i)      \* p q r s t
Fields(kinds) == [i \in 1..Len(kinds) |-> Fld(FName(i), K(kinds[i]), "plain", FALSE, <<>>)]
Rec(kinds, steps) == StructT(Fields(kinds), steps)
LastName == FName(Len(ks))
\* the placement as a type expression (flat streams are handled apart)
TypeOf(kinds, p) ==
  CASE p = "tuple" -> [k |-> "tup", es |-> [i \in 1..Len(kinds) |-> K(kinds[i])]]
    [] p = "vec" -> [k |-> "vec", e |-> K("dstr")]
    [] p = "v0" -> Rec(kinds, <<>>)
    [] p = "evoPlain" -> StructT([Fields(kinds) EXCEPT ![Len(kinds)].dv = <<3, 100>>], <<Stp("Added", FName(Len(kinds)), <<3, 100>>)>>)
    \* the FIRST declared field is the added one: it is written (and read) first although its chunk comes last
    [] p = "evoFirst" -> StructT([Fields(kinds) EXCEPT ![1].dv = <<3, 100>>], <<Stp("Added", FName(1), <<3, 100>>)>>)
    [] p = "evoGone" -> Rec(kinds, <<Stp("Removed", Gone, <<>>)>>)
    [] p = "evoTrans" -> StructT(Fields(kinds) \o <<Fld(Gone, STR, "plain", TRUE, <<3, 116>>)>>, <<Stp("MadeTransient", Gone, <<>>)>>)
    [] p = "vec2" -> [k |-> "vec", e |-> Rec(kinds, <<Stp("Removed", Gone, <<>>)>>)]
ValueOf(p, ss) ==   \* ss: the strings written, in order
  LET items == [i \in 1..Len(ss) |-> <<3>> \o ss[i]] IN
  CASE p = "tuple" -> <<10>> \o items
    [] p = "vec" -> <<8>> \o items
    [] p \in {"v0", "evoPlain", "evoFirst", "evoGone"} -> <<20>> \o items
    [] p = "evoTrans" -> <<20>> \o items \o <<<<3, 116>>>>
    [] p = "vec2" -> <<8, <<20>> \o items, <<20>> \o items>>
Assignments == [1..Len(ks) -> Strs]
ToPlain(kinds) == [i \in 1..Len(kinds) |-> "str"]

\* a flat stream: the items one after the other through one context
StreamEnc(kinds, ss) == EncTs("canon", [i \in 1..Len(kinds) |-> K(kinds[i])], <<0>> \o [i \in 1..Len(ss) |-> <<3>> \o ss[i]], 1, 1, EmptySt)
StreamDec(kinds, b) == DecTs([i \in 1..Len(kinds) |-> K(kinds[i])], b, 1, Len(b), EmptySt, 1, <<>>)

EncOf(kinds, p, ss) == IF p = "stream" THEN StreamEnc(kinds, ss) ELSE Encode(TypeOf(kinds, p), ValueOf(p, ss))

-----------------------------------------------------------------------------
\* decoding gives back exactly the strings that were written
RoundTrip ==
  \A ss \in Assignments :
    LET e == EncOf(ks, pl, ss) IN
    /\ e.ok
    /\ IF pl = "stream"
       THEN LET d == StreamDec(ks, e.b) IN d.ok /\ d.vs = [i \in 1..Len(ss) |-> <<3>> \o ss[i]] /\ d.p = Len(e.b) + 1
       ELSE LET d == Decode(TypeOf(ks, pl), e.b) IN d.ok /\ d.v = ValueOf(pl, ss) /\ d.p = Len(e.b) + 1

\* dedup strings that never repeat (and do not collide with a header name) cost nothing
Dedups(ss) == {i \in 1..Len(ks) : ks[i] = "dstr"}
NoRepeat(ss) == /\ \A i, j \in Dedups(ss) : i # j => ss[i] # ss[j]
                /\ (pl \in {"evoGone", "evoTrans", "vec2"} => \A i \in Dedups(ss) : ss[i] # Gone)
NoRepeatNoCost ==
  \A ss \in Assignments :
    (NoRepeat(ss) /\ pl # "vec2" /\ pl # "vec") => EncOf(ks, pl, ss).b = EncOf(ToPlain(ks), pl, ss).b

\* in a flat stream the i-th dedup write is plain the first time and VarI(-id) afterwards,
\* ids counting first occurrences from 1
FirstOcc(ss, i) == \A j \in 1..(i - 1) : ~(ks[j] = "dstr" /\ ss[j] = ss[i])
IdOf(ss, i) == Cardinality({j \in 1..i : ks[j] = "dstr" /\ FirstOcc(ss, j) /\
                   j <= (CHOOSE f \in 1..i : ks[f] = "dstr" /\ ss[f] = ss[i] /\ FirstOcc(ss, f))})
ExpectedItem(ss, i) ==
  IF ks[i] = "str" \/ FirstOcc(ss, i) THEN EncStrBytes(ss[i]) ELSE VarI(-IdOf(ss, i))
FirstPlainRepeatBackref ==
  pl = "stream" => \A ss \in Assignments :
     /\ StreamEnc(ks, ss).b = Flatten([i \in 1..Len(ks) |-> ExpectedItem(ss, i)])
     /\ \A i \in 1..Len(ks) : (ks[i] = "dstr" /\ ~FirstOcc(ss, i)) => Len(ExpectedItem(ss, i)) <= 5

\* a back-reference to an id that was never introduced is an error: n plain first
\* occurrences followed by the back-reference -k
UnknownIdErr ==
  pl = "stream" /\ Len(ks) = 1 =>
    \A n \in 0..3, k \in 1..4 :
      LET pre == Flatten([i \in 1..n |-> EncStrBytes(<<96 + i>>)])
          types == [i \in 1..(n + 1) |-> K("dstr")]
          d == DecTs(types, pre \o VarI(-k), 1, Len(pre) + 1, EmptySt, 1, <<>>) IN
      IF k <= n THEN d.ok /\ d.vs[n + 1] = <<3, 96 + k>> ELSE d = DErr("BadStringId")

-----------------------------------------------------------------------------
Case(ss) == [ss |-> ss, v |-> IF pl = "stream" THEN <<>> ELSE ValueOf(pl, ss), b |-> EncOf(ks, pl, ss).b]
UnknownCases == {[n |-> n, k |-> k, b |-> Flatten([i \in 1..n |-> EncStrBytes(<<96 + i>>)]) \o VarI(-k)] : n \in 0..3, k \in 1..4}
EmitCases ==
  PrintT(<<"REPLAY", ToJson([pl |-> pl, ks |-> ks, ty |-> IF pl = "stream" THEN <<>> ELSE TypeOf(ks, pl),
                             cases |-> {Case(ss) : ss \in Assignments},
                             unknown |-> IF pl = "stream" /\ Len(ks) = 1 /\ ks[1] = "dstr" THEN UnknownCases ELSE {}])>>)
=============================================================================
