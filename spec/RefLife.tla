------------------------------ MODULE RefLife ------------------------------
(***************************************************************************)
(* C19 (a): lifetimes of client objects versus the per-stream object table. *)
(*                                                                         *)
(* A client program is a sequence of actions over at most two objects:      *)
(*   <<"alloc", o, "outer" | "inner">>   create o in the outer / inner block *)
(*   <<"store", o>>        offer a reference to o to the table              *)
(*   <<"endinner">>        the inner block ends: its objects die            *)
(*   <<"drop", o>>         drop(o)                                          *)
(*   <<"move", o>>         o is moved into a callee                         *)
(*   <<"overwrite", o>>    the variable is assigned a new value             *)
(*   <<"get", i>>          ask the table for object number i               *)
(*   <<"use">>             dereference what the last get returned           *)
(*                                                                         *)
(* GetSafe: whenever the program dereferences a reference obtained from the *)
(* table, the referent is still alive.  With an API whose signature ties    *)
(* the stored reference to the table's lifetime a program violating GetSafe *)
(* does not type-check; with the API as typed today (store_ref takes a      *)
(* `&impl Any` and keeps a raw pointer) every such program compiles.        *)
(* TLC enumerates all programs up to MaxLen in canonical form: each one     *)
(* that ends in a "use" is a witness (violating) or a legal sibling.        *)
(***************************************************************************)
EXTENDS Integers, Sequences, FiniteSets, TLC

CONSTANT MaxLen
VARIABLES prog, live, scope, table, got, innerOpen, innerDone, done
vars == <<prog, live, scope, table, got, innerOpen, innerDone, done>>
Objs == {1, 2}

Init == /\ prog = <<>> /\ live = [o \in Objs |-> "none"] /\ scope = [o \in Objs |-> "none"]
        /\ table = <<>> /\ got = 0 /\ innerOpen = FALSE /\ innerDone = FALSE /\ done = FALSE

Add(a) == prog' = Append(prog, a)
\* objects are created in order (canonical form); the inner block opens at the first inner allocation
Alloc(o, s) == /\ live[o] = "none" /\ (o = 2 => live[1] # "none")
               /\ (s = "inner" => ~innerDone) /\ (s = "outer" => ~innerOpen)
               /\ live' = [live EXCEPT ![o] = "alive"] /\ scope' = [scope EXCEPT ![o] = s]
               /\ innerOpen' = (innerOpen \/ s = "inner") /\ Add(<<"alloc", o, s>>)
               /\ UNCHANGED <<table, got, innerDone, done>>
Store(o) == /\ live[o] = "alive" /\ \A i \in 1..Len(table) : table[i] # o
            /\ got = 0        \* the reference in hand borrows the context: no table update after a get
            /\ table' = Append(table, o) /\ Add(<<"store", o>>)
            /\ UNCHANGED <<live, scope, got, innerOpen, innerDone, done>>
EndInner == /\ innerOpen /\ ~innerDone
            /\ live' = [o \in Objs |-> IF scope[o] = "inner" /\ live[o] = "alive" THEN "dead" ELSE live[o]]
            /\ innerOpen' = FALSE /\ innerDone' = TRUE /\ Add(<<"endinner">>)
            /\ UNCHANGED <<scope, table, got, done>>
\* a death that is not the end of a block; only objects of the block that is open can be named
Kill(o, how) == /\ live[o] = "alive" /\ (scope[o] = "inner" => innerOpen) /\ (scope[o] = "outer" => ~innerOpen \/ TRUE)
                /\ \E i \in 1..Len(table) : table[i] = o         \* only deaths of stored objects are interesting
                /\ live' = [live EXCEPT ![o] = IF how = "overwrite" THEN "replaced" ELSE "dead"]
                /\ Add(<<how, o>>) /\ UNCHANGED <<scope, table, got, innerOpen, innerDone, done>>
Get(i) == /\ i \in 1..Len(table) /\ got = 0
          /\ (scope[table[i]] = "inner" => (innerOpen \/ innerDone))
          /\ got' = i /\ Add(<<"get", i>>) /\ UNCHANGED <<live, scope, table, innerOpen, innerDone, done>>
Use == /\ got # 0 /\ ~done /\ done' = TRUE /\ Add(<<"use">>)
       /\ UNCHANGED <<live, scope, table, got, innerOpen, innerDone>>

Next == /\ Len(prog) < MaxLen /\ ~done
        /\ \/ \E o \in Objs, s \in {"outer", "inner"} : Alloc(o, s)
           \/ \E o \in Objs : Store(o)
           \/ EndInner
           \/ \E o \in Objs, how \in {"drop", "move", "overwrite"} : Kill(o, how)
           \/ \E i \in 1..2 : Get(i)
           \/ Use
Spec == Init /\ [][Next]_vars

\* the referent of the reference in hand
Referent == IF got = 0 THEN 0 ELSE table[got]
\* a `get` issued inside the inner block yields a reference that cannot be used after the block
\* in any case; what matters is the state of the referent at the dereference
GetSafe == done => live[Referent] = "alive"
\* the intended (lifetime-checked) API admits exactly the programs that satisfy GetSafe
Witness == done /\ live[Referent] # "alive"
LegalSibling == done /\ live[Referent] = "alive"
=============================================================================
