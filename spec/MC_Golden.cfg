SPECIFICATION Spec
INVARIANT GoldenDecodes
CHECK_DEADLOCK FALSE
