------------------------------ MODULE AdtMech ------------------------------
(***************************************************************************)
(* The record mechanism at the granularity of the library's calls           *)
(* (AdtSerializer::new / write_field / finish, AdtDeserializer::new /       *)
(* read_field / read_optional_field): for every field, in declaration       *)
(* order, WHICH decision the mechanism takes, stated on declarations only   *)
(* (no bytes).  Codec.tla states the same mechanism on bytes; Adt.tla       *)
(* states the documented outcome on histories.  MC_Evo checks that the      *)
(* three agree (KindsMeanOutcome); Trace_Adt validates the decisions        *)
(* recorded from the running implementation against this table.             *)
(*                                                                         *)
(* Writer, declaration W (k = number of steps):                             *)
(*   new           version byte k; buffered iff k > 0                       *)
(*   write_field   every serialised (non-transient) field in declaration    *)
(*                 order, routed to chunk Gen(W.steps, name)                *)
(*   finish        k + 1 chunks (0 if k = 0)                                *)
(* Reader, declaration R, data written by W (stored version s = k):         *)
(*   kinds of a plain field:    0 name removed in the data   -> error       *)
(*                              1 chunk newer than the data  -> default     *)
(*                              2 present, made optional by the writer      *)
(*                                (flag + value; None is an error)          *)
(*                              3 present                                   *)
(*   kinds of an optional field: 4 name removed in the data  -> None        *)
(*                              5 chunk newer than the data  -> default     *)
(*                              6 present, written before it became         *)
(*                                optional (plain value, wrapped)           *)
(*                              7 present as an option                      *)
(***************************************************************************)
EXTENDS Adt

\* index of the next serialised field at or after i (Len + 1: none)
RECURSIVE NextSer(_, _)
NextSer(fields, i) == IF i > Len(fields) THEN i ELSE IF fields[i].tr THEN NextSer(fields, i + 1) ELSE i

\* ---------------------------------------------------------------- writer
WVersion(W) == Len(W.steps)
WBuffered(W) == Len(W.steps) > 0
WChunk(W, f) == Gen(W.steps, f.n)
WBuffers(W) == IF WBuffered(W) THEN Len(W.steps) + 1 ELSE 0
\* position of a serialised field inside its chunk, as the writer counts it
WPos(W, i) == Cardinality({j \in 1..(i - 1) : ~W.fields[j].tr /\ WChunk(W, W.fields[j]) = WChunk(W, W.fields[i])})
\* what the header says: names that are gone, positions that became optional
HdrRemoved(W) == RemovedNames(W.steps)
HdrMadeOptional(W) ==
  {<<WChunk(W, W.fields[i]), WPos(W, i)>> :
     i \in {j \in 1..Len(W.fields) : ~W.fields[j].tr /\ \E s \in 1..Len(W.steps) :
                                        W.steps[s].op = "MadeOptional" /\ W.steps[s].n = W.fields[j].n}}

\* ---------------------------------------------------------------- reader
\* cnt: chunk -> number of positions handed out so far (fields whose name the data removed take none)
ZeroCnt == [c \in 0..255 |-> 0]
ReadKind(W, R, f, cnt) ==
  LET s == WVersion(W)
      c == Gen(R.steps, f.n) IN
  IF f.n \in HdrRemoved(W) THEN (IF IsOptF(f) THEN 4 ELSE 0)
  ELSE IF s < c THEN (IF IsOptF(f) THEN 5 ELSE 1)
  ELSE IF IsOptF(f) THEN (IF s < OptAt(R.steps, f.n) THEN 6 ELSE 7)
  ELSE IF <<c, cnt[c]>> \in HdrMadeOptional(W) THEN 2 ELSE 3
\* does the decision take a position in its chunk?
TakesPos(kind) == kind \notin {0, 4}
CntAfter(R, f, kind, cnt) == IF TakesPos(kind) THEN [cnt EXCEPT ![Gen(R.steps, f.n)] = @ + 1] ELSE cnt
HasDefault(f) == f.dv # <<>>
\* after which decisions the read certainly fails / may fail (a None where a value is required)
Fatal(f, kind) == kind = 0 \/ (kind \in {1, 5} /\ ~HasDefault(f))
MayFail(kind) == kind = 2

\* the decisions for all serialised fields of R, in order, up to the first fatal one
RECURSIVE KindsFrom(_, _, _, _)
KindsFrom(W, R, i, cnt) ==
  LET j == NextSer(R.fields, i) IN
  IF j > Len(R.fields) THEN <<>>
  ELSE LET f == R.fields[j] k == ReadKind(W, R, f, cnt) IN
       IF Fatal(f, k) THEN <<k>> ELSE <<k>> \o KindsFrom(W, R, j + 1, CntAfter(R, f, k, cnt))
Kinds(W, R) == KindsFrom(W, R, 1, ZeroCnt)

(***************************************************************************)
(* Link to the documented outcome (Adt!ExpectedField), for version w        *)
(* written and version r reading along a history H from D0, value v:        *)
(* the decision taken for a field determines the class of the outcome.      *)
(***************************************************************************)
OutcomeClass(D0, H, w, r, v, f) ==
  LET e == ExpectedField(D0, H, w, r, v, f)
      DW == Ver(D0, H, w)
      iw == FieldIdx(DW, f.n) IN
  IF ~e.ok THEN e.err
  ELSE IF iw = 0 \/ DW.fields[iw].tr THEN (IF e.x = <<4>> /\ f.n \in HdrRemoved(DW) THEN "absent" ELSE "default")
  ELSE IF e.x = v[iw + 1] THEN "same"
  ELSE IF e.x = <<5, v[iw + 1]>> THEN "wrapped"
  ELSE IF v[iw + 1] = <<5, e.x>> THEN "unwrapped"
  ELSE "other"
KindAllows(kind, class) ==
  CASE kind = 0 -> class = "FieldRemoved"
    [] kind = 1 -> class \in {"default", "FieldMissing"}
    [] kind = 2 -> class \in {"unwrapped", "NoneForRequired"}
    [] kind = 3 -> class = "same"
    [] kind = 4 -> class = "absent"
    [] kind = 5 -> class = "default"
    [] kind = 6 -> class = "wrapped"
    [] kind = 7 -> class = "same"
=============================================================================
