----------------------------- MODULE Trace_Refs -----------------------------
(***************************************************************************)
(* Trace validation of the per-stream object table (C10): for every         *)
(* replayed graph the writer run and then the reader run are recorded:      *)
(*   {"ev":"begin","side":"w"|"r"}                                          *)
(*   {"ev":"ref","id":i,"new":1}    an object is registered under number i  *)
(*   {"ev":"ref","id":i,"new":0}    the writer cites a known object         *)
(*   {"ev":"tref","id":i}           the reader reads an object number       *)
(*                                  (0: a new object follows)               *)
(*   {"ev":"end","side":..,"ok":0|1,"n":reachable objects}                  *)
(* Both sides must behave as the table of Refs.tla: numbers are positions   *)
(* in first-encounter order from 1, a citation names an object already in   *)
(* the table, the writer registers exactly the reachable objects, and the   *)
(* reader ends with as many objects as the writer.                          *)
(***************************************************************************)
EXTENDS Integers, Sequences, Json, IOUtils, TLC
Rec == ndJsonDeserialize(IOEnv.TRACE)
VARIABLES l, count, wcount, side, viol
vars == <<l, count, wcount, side, viol>>
Flag(cond, why) == IF viol = <<>> /\ ~cond THEN <<l, why>> ELSE viol
Init == l = 1 /\ count = 0 /\ wcount = 0 /\ side = "w" /\ viol = <<>>
Next == /\ l <= Len(Rec)
        /\ LET e == Rec[l] IN
           CASE e.ev = "begin" -> /\ count' = 0 /\ wcount' = (IF e.side = "r" THEN count ELSE 0) /\ side' = e.side /\ UNCHANGED viol
             [] e.ev = "ref" /\ e.new = 1 ->
                  /\ viol' = Flag(e.id = count + 1, "a new object does not get the next number")
                  /\ count' = count + 1 /\ UNCHANGED <<wcount, side>>
             [] e.ev = "ref" /\ e.new = 0 ->
                  /\ viol' = Flag(e.id >= 1 /\ e.id <= count, "a citation names an object that is not in the table")
                  /\ UNCHANGED <<count, wcount, side>>
             [] e.ev = "tref" ->
                  /\ viol' = Flag(e.id >= 0, "negative object number") /\ UNCHANGED <<count, wcount, side>>
             [] e.ev = "end" ->
                  /\ viol' = Flag(e.ok = 0 \/ (IF e.side = "w" THEN count = e.n ELSE count = wcount),
                                  "the writer did not register exactly the reachable objects / the reader ends with another number of objects than the writer")
                  /\ UNCHANGED <<count, wcount, side>>
        /\ l' = l + 1
Spec == Init /\ [][Next]_vars
Accepted == IF TLCGet("stats").diameter - 1 # Len(Rec)
            THEN PrintT(<<"SHAPE", TLCGet("stats").diameter, Rec[TLCGet("stats").diameter]>>) /\ FALSE ELSE TRUE
NoViolation == viol = <<>> \/ (PrintT(<<"REJECTED", viol[1], viol[2], Rec[viol[1]]>>) /\ FALSE)
=============================================================================
