SPECIFICATION Spec
INVARIANTS EncTotal NestedOK EmitCases
CHECK_DEADLOCK FALSE
CONSTANT GhostLen = 2
