SPECIFICATION Spec
INVARIANTS EncTotal EmitCases
CHECK_DEADLOCK FALSE
CONSTANT GhostLen = 2
