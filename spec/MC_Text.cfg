SPECIFICATION Spec
INVARIANTS DecTotal TextAccepted EmitCases
CHECK_DEADLOCK FALSE
