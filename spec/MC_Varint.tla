----------------------------- MODULE MC_Varint -----------------------------
(***************************************************************************)
(* C11 on TLC: the VarintCore statements evaluated on every boundary of    *)
(* the 7-bit groups (pairs <<hi, lo>>) and of the zig-zag map, and the     *)
(* vectors (value, bytes) that pin the harness' transliteration and are    *)
(* replayed through every sink / source pair.  (All 2^32 values: Apalache, *)
(* VarintInt.tla.)                                                         *)
(***************************************************************************)
EXTENDS Varint, TLC, Json, FiniteSets
VARIABLES u, s
vars == <<u, s>>

LoEdges == {0, 1, 2, 63, 64, 126, 127, 128, 129, 255, 256, 8191, 8192, 16383, 16384, 16385, 1048575, 1048576,
            2097151, 2097152, 2097153, 134217727, 134217728, P28 - 2, P28 - 1, 123456789, 87654321, 33554431}
Unsigned == {<<h, l>> : h \in 0..15, l \in LoEdges}
Pow(k) == IF k = 6 THEN 64 ELSE IF k = 13 THEN 8192 ELSE IF k = 20 THEN 1048576 ELSE IF k = 27 THEN 134217728 ELSE 1073741824
SignedEdges == UNION {{Pow(k) - 1, Pow(k), Pow(k) + 1, -Pow(k) + 1, -Pow(k), -Pow(k) - 1} : k \in {6, 13, 20, 27, 30}}
Signed == SignedEdges \cup {0, 1, -1, 2, -2, 2147483647, -2147483647, -2147483647 - 1, 2147483646, 1234567, -7654321}

Init == u \in Unsigned /\ s \in {0}
Next == UNCHANGED vars
Spec == Init /\ [][Next]_vars

UnsignedOK == VC!VarBijective(u) /\ VC!ContBits(u) /\ VC!PrefixIncomplete(u)
              /\ RdVarU(VarUW(u), 1, Len(VarUW(u))) = [ok |-> TRUE, u |-> u, p |-> Len(VarUW(u)) + 1]
\* over-long forms and the ignored bits of a fifth byte (DESIGN 4.5 L2) decode to the same value
Lenient == LET e == VarUW(u) IN
  /\ (Len(e) < 5 => LET padded == [i \in 1..Len(e) |-> IF i = Len(e) THEN e[i] + 128 ELSE e[i]] \o <<0>> IN
                      RdVarU(padded, 1, Len(padded)).u = u)
  /\ (Len(e) = 5 => RdVarU([e EXCEPT ![5] = @ + 240], 1, 5).u = u)
SignedOK == \A k \in Signed :
  /\ UnZigZag(ZigZag(k)) = k
  /\ RdVarI(VarI(k), 1, Len(VarI(k))) = [ok |-> TRUE, x |-> k, p |-> Len(VarI(k)) + 1]
  /\ (Len(VarI(k)) = 1 <=> (k >= -64 /\ k <= 63))
  /\ (Len(VarI(k)) <= 2 <=> (k >= -8192 /\ k <= 8191))
  /\ (Len(VarI(k)) <= 3 <=> (k >= -1048576 /\ k <= 1048575))
  /\ (Len(VarI(k)) <= 4 <=> (k >= -134217728 /\ k <= 134217727))

\* a var-int is read at any position of any buffer: whatever precedes and follows it, exactly its bytes are
\* consumed and the value does not depend on the neighbours (a reader that loads a whole word must mask it)
FF8 == [i \in 1..8 |-> 255]
Contexts == {<<<<>>, <<128>>>>, <<<<>>, FF8>>, <<<<>>, <<15, 0, 0, 0, 0, 0, 0, 0>>>>, <<<<>>, <<127, 127, 127, 127, 127, 127, 127, 127>>>>,
             <<<<255>>, FF8>>, <<<<128, 1>>, <<1, 2, 3>>>>, <<FF8, FF8 \o FF8>>}
InContext == \A c \in Contexts :
  LET e == VarUW(u) b == c[1] \o e \o c[2] IN
  /\ RdVarU(b, Len(c[1]) + 1, Len(b)) = [ok |-> TRUE, u |-> u, p |-> Len(c[1]) + Len(e) + 1]
  /\ \A k \in Signed : LET ek == VarI(k) bk == c[1] \o ek \o c[2] IN
        RdVarI(bk, Len(c[1]) + 1, Len(bk)) = [ok |-> TRUE, x |-> k, p |-> Len(c[1]) + Len(ek) + 1]

EmitOnce == (u # <<0, 0>>) \/
  PrintT(<<"REPLAY", ToJson([unsigned |-> {<<x[1], x[2], VarUW(x)>> : x \in Unsigned},
                             signed |-> {<<k, VarI(k)>> : k \in Signed}, contexts |-> Contexts])>>)
=============================================================================
