---------------------------- MODULE Trace_Reader ----------------------------
(***************************************************************************)
(* Trace validation (implementation -> specification) of the reader        *)
(* mechanism.  Events recorded by the hooks of DeserializationContext:     *)
(*   {"ev":"dctx","n":N}                          a context over N bytes     *)
(*   {"ev":"r"|"sk","at":abs,"n":n,"ok":0|1}      read / skip               *)
(*   {"ev":"pushr","rs","rp","re","as","ae"}      region pushed (relative   *)
(*                                                as given, absolute as the *)
(*                                                code resolved it)         *)
(*   {"ev":"popr"}                                                          *)
(* Every event is replayed on Reader's state machine.  A conjunct tagged    *)
(* PROPERTY that fails is recorded in `viol` (index and reason) - the       *)
(* implementation did something the specification forbids; an event that    *)
(* cannot be replayed at all (pop on an empty stack) stops the replay and   *)
(* is reported as a shape problem (specification drift, not a verdict).     *)
(***************************************************************************)
EXTENDS Integers, Sequences, Json, IOUtils, TLC
Rec == ndJsonDeserialize(IOEnv.TRACE)
VARIABLES l, N, cur, stack, viol
vars == <<l, N, cur, stack, viol>>

Region(s, p, e) == [start |-> s, pos |-> p, end |-> e]
Cursor(r) == r.start + r.pos
Flag(cond, why) == IF viol = <<>> /\ ~cond THEN <<l, why>> ELSE viol

Init == l = 1 /\ N = 0 /\ cur = Region(0, 0, 0) /\ stack = <<>> /\ viol = <<>>

Ctx(e) == /\ N' = e.n /\ cur' = Region(0, 0, e.n) /\ stack' = <<>> /\ UNCHANGED viol
ReadOrSkip(e) ==
  LET fits == Cursor(cur) + e.n <= cur.end IN
  /\ viol' = Flag(/\ e.at = Cursor(cur)                       \* PROPERTY: reads where the cursor of its own chunk is
                  /\ (e.ok = 1) = fits                         \* PROPERTY: succeeds iff the chunk has that many bytes left
                  /\ (e.ok = 1 => e.at + e.n <= N),            \* PROPERTY: never outside the buffer
                  IF e.at # Cursor(cur) THEN "read at an offset that is not the cursor of the current region"
                  ELSE IF (e.ok = 1) # fits THEN "read outcome differs from what the current region allows"
                  ELSE "read outside the buffer")
  /\ cur' = IF e.ok = 1 THEN [cur EXCEPT !.pos = @ + e.n] ELSE cur
  /\ UNCHANGED <<N, stack>>
Push(e) ==
  /\ viol' = Flag(/\ e.rs <= e.re /\ e.rp <= e.re - e.rs /\ cur.start + e.re <= cur.end   \* PROPERTY: a chunk lies inside its parent
                  /\ e.as = cur.start + e.rs /\ e.ae = cur.start + e.re,                     \* PROPERTY: resolved relative to the parent start
                  "pushed region is not inside the current region / resolved differently")
  /\ stack' = Append(stack, cur)
  /\ cur' = Region(cur.start + e.rs, e.rp, cur.start + e.re)
  /\ UNCHANGED N
Pop(e) == /\ stack # <<>>                                                                   \* SHAPE
          /\ cur' = stack[Len(stack)] /\ stack' = SubSeq(stack, 1, Len(stack) - 1)
          /\ UNCHANGED <<N, viol>>
Next == /\ l <= Len(Rec)
        /\ LET e == Rec[l] IN
           CASE e.ev = "dctx" -> Ctx(e)
             [] e.ev \in {"r", "sk"} -> ReadOrSkip(e)
             [] e.ev = "pushr" -> Push(e)
             [] e.ev = "popr" -> Pop(e)
        /\ l' = l + 1
Spec == Init /\ [][Next]_vars
ViolView == viol
\* the replay is complete and no property conjunct failed
Accepted ==
  IF TLCGet("stats").diameter - 1 # Len(Rec)
  THEN PrintT(<<"SHAPE", TLCGet("stats").diameter, Rec[TLCGet("stats").diameter]>>) /\ FALSE
  ELSE TRUE
NoViolation == viol = <<>> \/ (PrintT(<<"REJECTED", viol[1], viol[2], Rec[viol[1]]>>) /\ FALSE)
=============================================================================
