------------------------------- MODULE Reader -------------------------------
(***************************************************************************)
(* Mechanism layer of the reader: the DeserializationContext as a state    *)
(* machine over a buffer of N bytes - a current region and a stack of      *)
(* suspended regions.  A region is [start, pos, end]: absolute start and   *)
(* end (exclusive) in the buffer, pos relative to start.                   *)
(*                                                                         *)
(*   Read(n) / Skip(n)  succeed iff start + pos + n <= end; on failure      *)
(*                      nothing moves                                       *)
(*   Push(r)            r = [rs, rp, re] relative to the current start:     *)
(*                      enter [start + rs, rp, start + re]; r must lie      *)
(*                      inside the current region (the ADT reader obtains   *)
(*                      chunk regions by skipping them on the parent)       *)
(*   Pop                back to the suspended region, unchanged             *)
(*                                                                         *)
(* RegionInv: every region lies inside the buffer and inside the region    *)
(* beneath it, cursors stay inside their regions.  Hence every byte handed *)
(* out lies inside the current chunk (ReadsInsideChunk, C06) and inside    *)
(* the buffer (C05), and Pop restores the parent cursor (ParentUntouched,  *)
(* C07).                                                                   *)
(***************************************************************************)
EXTENDS Integers, Sequences
CONSTANT MaxN                      \* buffer sizes explored by the model checker
VARIABLES N, cur, stack, lastRead  \* lastRead: <<abs, n>> of the last successful read (history)
vars == <<N, cur, stack, lastRead>>

Region(s, p, e) == [start |-> s, pos |-> p, end |-> e]
Cursor(r) == r.start + r.pos
Fits(r, n) == Cursor(r) + n <= r.end

Init == N \in 0..MaxN /\ cur = Region(0, 0, N) /\ stack = <<>> /\ lastRead = <<0, 0>>
Read(n) == /\ IF Fits(cur, n) THEN cur' = [cur EXCEPT !.pos = @ + n] /\ lastRead' = <<Cursor(cur), n>>
              ELSE UNCHANGED <<cur, lastRead>>
           /\ UNCHANGED <<N, stack>>
Inside(r, parent) == r.rs <= r.re /\ r.rp <= r.re - r.rs /\ parent.start + r.re <= parent.end /\ r.rs >= 0 /\ r.rp >= 0
Push(r) == /\ Inside(r, cur)
           /\ stack' = Append(stack, cur)
           /\ cur' = Region(cur.start + r.rs, r.rp, cur.start + r.re)
           /\ UNCHANGED <<N, lastRead>>
Pop == /\ stack # <<>>
       /\ cur' = stack[Len(stack)] /\ stack' = SubSeq(stack, 1, Len(stack) - 1)
       /\ UNCHANGED <<N, lastRead>>
Next == \/ \E n \in 0..(MaxN + 1) : Read(n)
        \/ \E rs \in 0..MaxN, rp \in 0..MaxN, re \in 0..MaxN : Push([rs |-> rs, rp |-> rp, re |-> re])
        \/ Pop
Spec == Init /\ [][Next]_vars

Frames == <<cur>> \o [i \in 1..Len(stack) |-> stack[Len(stack) + 1 - i]]     \* innermost first
RegionOK(r) == r.start >= 0 /\ r.pos >= 0 /\ Cursor(r) <= r.end /\ r.end <= N
RegionInv ==
  /\ \A i \in 1..Len(Frames) : RegionOK(Frames[i])
  /\ \A i \in 1..(Len(Frames) - 1) : Frames[i].start >= Frames[i + 1].start /\ Frames[i].end <= Frames[i + 1].end
\* what was handed out lies inside the buffer
ReadsInsideBuffer == lastRead[1] + lastRead[2] <= N
\* a read never moves a suspended region
ParentUntouched == [][\A n \in 0..(MaxN + 1) : Read(n) => stack' = stack]_vars
=============================================================================
