SPECIFICATION Spec
INVARIANTS RoundTrip OldReader EmitCases
CHECK_DEADLOCK FALSE
CONSTANT Depths = {64, 65, 300}
CONSTANT Counts = {1024, 1025}
