-------------------------------- MODULE Refs --------------------------------
(***************************************************************************)
(* The per-stream object table (reference tracking) and a graph codec that  *)
(* uses it (C10).                                                           *)
(*                                                                         *)
(* Table: a sequence of object identities; the id of an object is its       *)
(* position (from 1), i.e. its first-encounter number.                      *)
(*   writer  StoreRefOrObject(o): known  -> emit var_u32(id),  body skipped  *)
(*                                new    -> register, emit var_u32(0), body *)
(*   reader  TryReadRef:          0      -> "a new object follows"           *)
(*                                1..n   -> object number id                 *)
(*                                other  -> error BadRefId                   *)
(*           StoreRef(o):         register in creation order                 *)
(*                                                                         *)
(* Graph codec (implemented in the harness with Rc<RefCell<Node>>; identity  *)
(* = address): a node body is label (string), successor count (one byte),   *)
(* then per successor StoreRefOrObject(target) followed by the target's body *)
(* if it is new.  The root is offered first.  The reader registers a node   *)
(* after its label and before its successors.                               *)
(*                                                                         *)
(* A graph is [n, label: 1..n -> string bytes, succ: 1..n -> Seq(1..n)];    *)
(* the root is node 1.                                                      *)
(***************************************************************************)
EXTENDS Codec

IdIn(tab, o) == IF \E i \in 1..Len(tab) : tab[i] = o THEN CHOOSE i \in 1..Len(tab) : tab[i] = o ELSE 0

\* writer side --------------------------------------------------------------
RECURSIVE EncBody(_, _, _), EncEdges(_, _, _, _)
\* returns [b, tab]
EncBody(g, x, tab) ==
  LET es == EncEdges(g, g.succ[x], 1, tab) IN
  [b |-> EncStrBytes(g.label[x]) \o <<Len(g.succ[x])>> \o es.b, tab |-> es.tab]
EncEdges(g, targets, i, tab) ==
  IF i > Len(targets) THEN [b |-> <<>>, tab |-> tab]
  ELSE LET t == targets[i] id == IdIn(tab, t) IN
       IF id # 0
       THEN LET rest == EncEdges(g, targets, i + 1, tab) IN [b |-> VarU(id) \o rest.b, tab |-> rest.tab]
       ELSE LET body == EncBody(g, t, Append(tab, t))           \* registered when offered, before its body
                rest == EncEdges(g, targets, i + 1, body.tab) IN
            [b |-> VarU(0) \o body.b \o rest.b, tab |-> rest.tab]
\* the root is offered like any successor
EncGraph(g) == EncEdges(g, <<1>>, 1, <<>>)

\* reader side --------------------------------------------------------------
\* state: [nodes: seq of [label, succ]] in creation order (= table); returns [ok, node id, p, nodes]
RECURSIVE DecBody(_, _, _), DecEdges(_, _, _, _, _), DecRef(_, _, _)
DecRef(b, p, nodes) ==     \* an offered object: reference or new body
  LET c == RdVarU(b, p, Len(b)) IN
  IF ~c.ok THEN [ok |-> FALSE, err |-> "InputEnded"]
  ELSE IF Small(c.u) /\ c.u[2] = 0 THEN DecBody(b, c.p, nodes)
  ELSE IF Small(c.u) /\ c.u[2] <= Len(nodes) THEN [ok |-> TRUE, id |-> c.u[2], p |-> c.p, nodes |-> nodes]
  ELSE [ok |-> FALSE, err |-> "BadRefId"]
DecBody(b, p, nodes) ==
  LET s == DecString(b, p, Len(b)) IN
  IF ~s.ok THEN [ok |-> FALSE, err |-> s.err]
  ELSE IF s.p > Len(b) THEN [ok |-> FALSE, err |-> "InputEnded"]
  ELSE LET me == Len(nodes) + 1
           nodes1 == Append(nodes, [label |-> s.s, succ |-> <<>>])     \* registered before its successors
           es == DecEdges(b, s.p + 1, nodes1, b[s.p], <<>>) IN
       IF ~es.ok THEN es
       ELSE [ok |-> TRUE, id |-> me, p |-> es.p, nodes |-> [es.nodes EXCEPT ![me].succ = es.ids]]
DecEdges(b, p, nodes, n, ids) ==
  IF n = 0 THEN [ok |-> TRUE, ids |-> ids, p |-> p, nodes |-> nodes]
  ELSE LET r == DecRef(b, p, nodes) IN
       IF ~r.ok THEN r ELSE DecEdges(b, r.p, r.nodes, n - 1, Append(ids, r.id))
DecGraph(b) ==
  LET r == DecRef(b, 1, <<>>) IN
  IF ~r.ok THEN r
  ELSE [ok |-> TRUE, p |-> r.p,
        g |-> [n |-> Len(r.nodes), label |-> [i \in 1..Len(r.nodes) |-> r.nodes[i].label],
               succ |-> [i \in 1..Len(r.nodes) |-> r.nodes[i].succ]]]

\* graphs ---------------------------------------------------------------------
\* nodes in pre-order of first encounter from the root
RECURSIVE PreOrder(_, _, _)
PreOrder(g, stack, seen) ==   \* stack: targets still to be offered, in order
  IF stack = <<>> THEN seen
  ELSE LET x == Head(stack) IN
       IF IdIn(seen, x) # 0 THEN PreOrder(g, Tail(stack), seen)
       ELSE PreOrder(g, g.succ[x] \o Tail(stack), Append(seen, x))
Order(g) == PreOrder(g, <<1>>, <<>>)
Reachable(g) == {Order(g)[i] : i \in 1..Len(Order(g))}
\* the reachable part renumbered by first-encounter order: the canonical form
Canon(g) ==
  LET ord == Order(g) IN
  [n |-> Len(ord), label |-> [i \in 1..Len(ord) |-> g.label[ord[i]]],
   succ |-> [i \in 1..Len(ord) |-> [j \in 1..Len(g.succ[ord[i]]) |-> IdIn(ord, g.succ[ord[i]][j])]]]
=============================================================================
