------------------------------- MODULE Deflate -------------------------------
(***************************************************************************)
(* The part of DEFLATE (RFC 1951) that needs no Huffman tables: streams of  *)
(* stored blocks.  A block starts at a byte boundary with a header byte     *)
(* whose bit 0 is BFINAL and whose bits 1-2 are BTYPE (00 = stored; the      *)
(* other five bits are padding and ignored), followed by LEN (16 bits,      *)
(* little endian), NLEN = its one's complement, and LEN literal bytes.      *)
(* The value of a stream is the concatenation of the literals up to and     *)
(* including the first final block.                                         *)
(*                                                                         *)
(* This is what the payload of a compressed block is at level 0, and it is  *)
(* a family of valid payloads the library's own writer never produces at    *)
(* any other level (other splits, padding bits), which the reader has to    *)
(* inflate all the same (C16).  Streams with Huffman blocks stay opaque.    *)
(***************************************************************************)
EXTENDS Compressed

StoredBlock(final, pad, data) ==
  <<(IF final THEN 1 ELSE 0) + 8 * pad>> \o <<Len(data) % 256, Len(data) \div 256>>
     \o <<255 - (Len(data) % 256), 255 - (Len(data) \div 256)>> \o data

\* parts: the literals of the blocks (the last one is final); pads: the padding bits (0..31) of each header
RECURSIVE StoredStream(_, _, _)
StoredStream(parts, pads, i) ==
  IF i > Len(parts) THEN <<>>
  ELSE StoredBlock(i = Len(parts), pads[i], parts[i]) \o StoredStream(parts, pads, i + 1)

\* [ok, d, next] for a stream of stored blocks that starts at z[p]; why: "ended" (no final block inside z),
\* "corrupt" (LEN / NLEN disagree, BTYPE 11), "opaque" (a Huffman block: not decided here)
RECURSIVE InflateStored(_, _, _)
InflateStored(z, p, acc) ==
  IF p > Len(z) THEN [ok |-> FALSE, why |-> "ended"]
  ELSE LET btype == (z[p] \div 2) % 4 IN
    IF btype = 3 THEN [ok |-> FALSE, why |-> "corrupt"]
    ELSE IF btype # 0 THEN [ok |-> FALSE, why |-> "opaque"]
    ELSE IF p + 4 > Len(z) THEN [ok |-> FALSE, why |-> "ended"]
    ELSE LET len == z[p + 1] + 256 * z[p + 2]
             nlen == z[p + 3] + 256 * z[p + 4] IN
      IF len + nlen # 65535 THEN [ok |-> FALSE, why |-> "corrupt"]
      ELSE IF p + 4 + len > Len(z) THEN [ok |-> FALSE, why |-> "ended"]
      ELSE LET acc2 == acc \o SubSeq(z, p + 5, p + 4 + len) IN
           IF z[p] % 2 = 1 THEN [ok |-> TRUE, d |-> acc2, next |-> p + 5 + len]
           ELSE InflateStored(z, p + 5 + len, acc2)
Inflate(z) == InflateStored(z, 1, <<>>)

\* the value of a whole compressed block on bytes b: the frame, then the stream inside exactly its |z| bytes
ReadBlock(b) ==
  LET f == ReadFrame(b) IN
  IF ~f.ok THEN [ok |-> FALSE, why |-> "frame"]
  ELSE LET i == Inflate(f.z) IN
       IF i.ok THEN [ok |-> TRUE, d |-> i.d, p |-> f.p] ELSE i
=============================================================================
