----------------------------- MODULE MC_Tamper -----------------------------
(***************************************************************************)
(* C05 / C06 on damaged valid data: every valid encoding of the universe   *)
(* (built-in types of depth 2, derived and evolved records in every        *)
(* embedding, both size forms) under every tamper operator of Hostile.tla. *)
(* The reference decoder's verdict on each tampered input is emitted.      *)
(***************************************************************************)
EXTENDS Hostile, Json
CONSTANTS Depth, MaxEnc     \* type depth of the built-in part; longest encoding that is tampered
VARIABLE T
TamperTypes == TypesAt(Depth) \cup ContainerTargets \cup DerivedTargets
Init == T \in TamperTypes
Next == UNCHANGED T
Spec == Init /\ [][Next]_T

BaseEncodings ==
  LET vs == Take(VS(T), 3) IN
  {e \in {Encode(T, vs[i]).b : i \in 1..Len(vs)} \cup {EncAlt(T, vs[i], EmptySt).b : i \in 1..Len(vs)} :
     Len(e) >= 1 /\ Len(e) <= MaxEnc}

Verdicts(e) == {<<op, RefOutcome(T, Apply(e, op))>> : op \in TamperOps(e)}
\* the reference decoder is total on every tampered input
TamperTotal == \A e \in BaseEncodings : \A r \in Verdicts(e) : r[2][1] \in {"ok", "err", "unspec", "huge"}
\* untampered encodings are accepted (vacuity guard for the base set)
BasesValid == \A e \in BaseEncodings : RefOutcome(T, e)[1] = "ok"

EmitCases == PrintT(<<"REPLAY", ToJson([ty |-> T, bases |-> {[b |-> e, verdicts |-> Verdicts(e)] : e \in BaseEncodings}])>>)
=============================================================================
