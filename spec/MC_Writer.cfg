SPECIFICATION Spec
INVARIANTS Conservation Discipline AtRest
CONSTRAINT Bound
CHECK_DEADLOCK FALSE
CONSTANT MaxFrames = 2
CONSTANT MaxPayload = 4
