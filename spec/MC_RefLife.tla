----------------------------- MODULE MC_RefLife -----------------------------
EXTENDS RefLife, Json
\* every complete program (one that ends in a dereference) is emitted once, classified
EmitPrograms == ~done \/ PrintT(<<"REPLAY", ToJson([prog |-> prog, violates |-> Witness])>>)
\* vacuity: both classes exist (checked by the runner on the emitted set)
=============================================================================
