------------------------------ MODULE Hostile ------------------------------
(***************************************************************************)
(* Untrusted input (C05, C06): the target types, the byte alphabet, and    *)
(* the tamper operators applied to valid encodings.                        *)
(***************************************************************************)
EXTENDS Adt

\* tags, small zig-zag values (-1 = 01, -2 = 03, 1 = 02), varint continuation, extremes
Alphabet == {0, 1, 2, 3, 127, 128, 254, 255}

RECURSIVE StringsOver(_, _)
StringsOver(A, n) == IF n = 0 THEN {<<>>} ELSE LET Prev == StringsOver(A, n - 1) IN Prev \cup {Append(s, a) : s \in {x \in Prev : Len(x) = n - 1}, a \in A}

\* string-table targets: with the alphabet {0, 1, 2, 3, 5} (empty literal, one-byte literals, back-references -1, -2, -3)
\* six bytes suffice for "literal, the same literal again, another literal, back-reference"
DedupAlphabet == {0, 1, 2, 3, 5}
DS == [k |-> "dstr"]
DedupTargets == {[k |-> "tup", es |-> <<DS, DS, DS, DS>>], [k |-> "vec", e |-> DS], [k |-> "tup", es |-> <<DS, [k |-> "str"], DS, DS>>],
                 StructT(<<Fld(<<115>>, DS, "plain", FALSE, <<>>), Fld(<<116>>, DS, "plain", FALSE, <<>>), Fld(<<117>>, DS, "plain", FALSE, <<>>)>>,
                         <<Stp("Removed", <<103>>, <<>>)>>)}

RECURSIVE StringsUpTo(_)
StringsUpTo(n) == IF n = 0 THEN {<<>>} ELSE LET Prev == StringsUpTo(n - 1) IN Prev \cup {Append(s, a) : s \in {x \in Prev : Len(x) = n - 1}, a \in Alphabet}

-----------------------------------------------------------------------------
(* Derived target types *)
FInner == StructT(<<Fld(Nm(120), U8, "plain", FALSE, <<>>), Fld(Nm(121), STR, "plain", FALSE, <<3, 100>>)>>,
                  <<Stp("Added", Nm(121), <<3, 100>>)>>)
\* made-optional field, removed name in the header, deduplicated strings
FOpt == StructT(<<Fld(Nm(97), OptT(U8), "Option", FALSE, <<>>), Fld(Nm(98), K("u16"), "plain", FALSE, <<>>)>>,
                <<Stp("MadeOptional", Nm(97), <<>>)>>)
FGone == StructT(<<Fld(Nm(115), K("dstr"), "plain", FALSE, <<>>), Fld(Nm(116), K("dstr"), "plain", FALSE, <<>>)>>,
                 <<Stp("Removed", <<103, 111, 110, 101>>, <<>>)>>)
FPlain == StructT(<<Fld(Nm(97), U8, "plain", FALSE, <<>>), Fld(Nm(98), OptT(STR), "Option", FALSE, <<>>)>>, <<>>)
\* nested evolved records: the inner record is itself an added field
FOuter == StructT(<<Fld(Nm(112), U8, "plain", FALSE, <<>>), Fld(Nm(114), FInner, "plain", FALSE, <<20, <<0, 1>>, <<3, 100>>>>),
                    Fld(Nm(116), U8, "plain", FALSE, <<>>)>>,
                  <<Stp("Added", Nm(114), <<20, <<0, 1>>, <<3, 100>>>>)>>)
FEnum == EnumT(<<VariantT(<<65>>, "unit", <<>>, <<>>, FALSE),
                 VariantT(<<66>>, "tuple", <<Fld(VariantFieldName(0), STR, "plain", FALSE, <<>>)>>, <<>>, FALSE),
                 VariantT(<<67>>, "struct", <<Fld(Nm(120), U8, "plain", FALSE, <<>>), Fld(Nm(121), K("u16"), "plain", FALSE, <<0, 0, 9>>)>>,
                          <<Stp("Added", Nm(121), <<0, 0, 9>>)>>, FALSE),
                 VariantT(<<68>>, "unit", <<>>, <<>>, TRUE)>>, FALSE)
DerivedTargets == {FInner, FOpt, FGone, FPlain, FOuter, FEnum, NamedT("RecList"), NamedT("RecTree"), NamedT("RecEnum"),
                   [k |-> "inchunk", e |-> FInner], [k |-> "inchunk", e |-> [k |-> "vec", e |-> FInner]],
                   [k |-> "inchunk", e |-> STR], [k |-> "vec", e |-> FOpt], [k |-> "tup", es |-> <<U8, FInner, U8>>]}

ContainerTargets ==
  {OptT(U8), OptT(STR), [k |-> "res", a |-> U8, b |-> STR],
   [k |-> "vec", e |-> K("u16")], [k |-> "vec", e |-> STR], [k |-> "vec", e |-> K("unit")], [k |-> "vec", e |-> K("bool")],
   [k |-> "vec", e |-> [k |-> "vec", e |-> K("u16")]],
   [k |-> "list", e |-> U8], [k |-> "list", e |-> K("unit")], [k |-> "hset", e |-> U8], [k |-> "hset", e |-> K("unit")],
   [k |-> "bset", e |-> STR], [k |-> "hmap", a |-> U8, b |-> STR], [k |-> "bmap", a |-> STR, b |-> K("unit")],
   [k |-> "arr", n |-> 3, e |-> K("u16")], [k |-> "arr", n |-> 0, e |-> STR], [k |-> "arr", n |-> 1, e |-> K("unit")],
   [k |-> "arr", n |-> 3, e |-> K("bool")],
   [k |-> "tup", es |-> <<U8>>], [k |-> "tup", es |-> <<U8, STR>>], [k |-> "tup", es |-> <<OptT(U8), K("u16"), K("bool")>>],
   [k |-> "box", e |-> STR], [k |-> "phantom", e |-> U8], K("dstr"),
   [k |-> "tup", es |-> <<K("dstr"), K("dstr")>>], [k |-> "vec", e |-> K("dstr")]}

FuzzTypes == Leaves \cup ContainerTargets \cup DerivedTargets

-----------------------------------------------------------------------------
(* Outcome of the reference decoder in the compact form that is emitted:   *)
(*   <<"ok", v, bytes used>>, <<"err", class>>, <<"unspec">>, <<"huge">>    *)
RefOutcome(T, b) ==
  LET d == Decode(T, b) IN
  IF d.ok THEN <<"ok", d.v, d.p - 1>>
  ELSE IF d.err = "Unspecified" THEN <<"unspec">>
  ELSE IF d.err = "HugeZeroWidth" THEN <<"huge">>
  ELSE <<"err", d.err>>

-----------------------------------------------------------------------------
(* Tamper operators on an encoding e: <<op, i, a>>                          *)
(*   0 set byte i to a   1 delete byte i   2 duplicate byte i               *)
(*   3 insert a before byte i   4 swap bytes i and i+1                      *)
\* bytes on both sides of the edges of small value domains (hours, minutes, seconds, months, days, weekdays,
\* two-valued tags): a decoder that is lenient about one of them invents a value (seeded S69)
EdgeBytes == {4, 6, 7, 8, 12, 13, 23, 24, 28, 29, 30, 31, 32, 59, 60, 61}
TamperOps(e) ==
  {<<0, i, a>> : i \in 1..Len(e), a \in Alphabet \cup EdgeBytes} \cup {<<1, i, 0>> : i \in 1..Len(e)}
  \cup {<<2, i, 0>> : i \in 1..Len(e)} \cup {<<3, i, a>> : i \in 1..Len(e), a \in {0, 1, 255}}
  \cup {<<4, i, 0>> : i \in 1..(Len(e) - 1)}
Apply(e, op) ==
  CASE op[1] = 0 -> [e EXCEPT ![op[2]] = op[3]]
    [] op[1] = 1 -> SubSeq(e, 1, op[2] - 1) \o SubSeq(e, op[2] + 1, Len(e))
    [] op[1] = 2 -> SubSeq(e, 1, op[2]) \o SubSeq(e, op[2], Len(e))
    [] op[1] = 3 -> SubSeq(e, 1, op[2] - 1) \o <<op[3]>> \o SubSeq(e, op[2], Len(e))
    [] op[1] = 4 -> [e EXCEPT ![op[2]] = e[op[2] + 1], ![op[2] + 1] = e[op[2]]]
=============================================================================
