----------------------------- MODULE MC_Deflate -----------------------------
(***************************************************************************)
(* C16, reader side, on payloads the writer does not produce: every split   *)
(* of a small content into up to three stored blocks (empty blocks          *)
(* included) with several paddings of the header bits, and two longer       *)
(* contents.  One TLC state per (content, split).                           *)
(*   StoredInverts:  inflating the stream gives the content back and stops  *)
(*                   exactly after the final block;                         *)
(*   BlockValue:     the compressed block around it, followed by other      *)
(*                   bytes, has that value and ends after its |z| bytes,    *)
(*                   whatever uncompressed length the header announces      *)
(*                   (the announcement is a reservation hint: 4.5 L12);     *)
(*   BlockCut:       no strict prefix of the block has a value.             *)
(***************************************************************************)
EXTENDS Deflate, Json, TLC
VARIABLES d, cuts, pads
vars == <<d, cuts, pads>>
Content(n) == [i \in 1..n |-> (i * 37) % 251]
Smalls == {Content(n) : n \in 0..3}
Longs == {Content(300), Content(1000)}
\* cuts: where blocks end (non-decreasing positions in 0..Len(d); the last block ends at Len(d))
CutsOf(x) == IF Len(x) <= 3
             THEN {<<Len(x)>>} \cup {<<a, Len(x)>> : a \in 0..Len(x)} \cup {<<a, b, Len(x)>> : a \in 0..Len(x), b \in 0..Len(x)}
             ELSE {<<Len(x)>>, <<0, Len(x)>>, <<255, Len(x)>>, <<256, Len(x)>>, <<1, 299, Len(x)>>}
PadsOf(k) == {[i \in 1..k |-> 0], [i \in 1..k |-> 31], [i \in 1..k |-> (5 * i) % 32]}
Init == /\ d \in Smalls \cup Longs
        /\ cuts \in {c \in CutsOf(d) : \A i \in 1..(Len(c) - 1) : c[i] <= c[i + 1]}
        /\ pads \in PadsOf(Len(cuts))
Next == UNCHANGED vars
Spec == Init /\ [][Next]_vars

Parts == [i \in 1..Len(cuts) |-> SubSeq(d, (IF i = 1 THEN 0 ELSE cuts[i - 1]) + 1, cuts[i])]
Z == StoredStream(Parts, pads, 1)
StoredInverts == LET r == Inflate(Z) IN r.ok /\ r.d = d /\ r.next = Len(Z) + 1
Announced == {U32(Len(d)), U32(0), U32(Len(d) + 1), U32(70000), <<15, P28 - 1>>}
Block(a) == VarUW(a) \o VarU(Len(Z)) \o Z
BlockValue == \A a \in Announced : \A s \in {<<>>, <<171, 128>>} :
                LET r == ReadBlock(Block(a) \o s) IN r.ok /\ r.d = d /\ r.p = Len(Block(a)) + 1
BlockCut == LET b == Block(U32(Len(d))) IN \A k \in 0..(Len(b) - 1) : ~ReadFrame(SubSeq(b, 1, k)).ok
\* damage inside a stream that the rules above decide: LEN and NLEN disagree
Corrupt == LET bad == [Z EXCEPT ![4] = (@ + 1) % 256] IN Inflate(bad) = [ok |-> FALSE, why |-> "corrupt"]
EmitCases == PrintT(<<"REPLAY", ToJson([d |-> d, cuts |-> cuts, pads |-> pads, z |-> Z,
                                        blocks |-> {<<a, Block(a)>> : a \in Announced}])>>)
=============================================================================
