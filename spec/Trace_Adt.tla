----------------------------- MODULE Trace_Adt -----------------------------
(***************************************************************************)
(* Trace validation of the record mechanism (C02, C03): the decisions the   *)
(* running library takes per field, recorded by the hooks in                *)
(* AdtSerializer / AdtDeserializer, against the table of AdtMech.tla.       *)
(*                                                                         *)
(* One replayed evolution case (writer declaration w, reader declaration r, *)
(* as emitted by MC_Evo) is recorded as                                     *)
(*   {"ev":"case","w":decl,"r":decl}                                        *)
(*   {"ev":"anew","ver":k,"buf":0|1}        AdtSerializer::new / new_v0     *)
(*   {"ev":"wf","chunk":c,"buf":0|1,"n":name}   write_field                 *)
(*   {"ev":"afin","nb":n}                   finish                          *)
(*   {"ev":"wend","ok":0|1}                 the encoding call returned      *)
(*   {"ev":"dnew","stored":s,"nin":n,"ver":k}   AdtDeserializer::new[_v0]   *)
(*   {"ev":"rf","kind":0..7,"chunk":c,"n":name}  read_[optional_]field      *)
(*   {"ev":"rend","ok":0|1}                 the decoding call returned      *)
(* (only declarations whose fields are not records themselves are traced,   *)
(* so every event belongs to the record of the case).                       *)
(*                                                                         *)
(* A deviation from the table is a violation (viol); an event that no       *)
(* phase of the protocol expects is a shape problem (specification drift).  *)
(***************************************************************************)
EXTENDS AdtMech, Json, IOUtils
Rec == ndJsonDeserialize(IOEnv.TRACE)
VARIABLES l, ph, W, R, i, cnt, mayfail, viol
vars == <<l, ph, W, R, i, cnt, mayfail, viol>>
Flag(cond, why) == IF viol = <<>> /\ ~cond THEN <<l, why>> ELSE viol
NoDecl == [fields |-> <<>>, steps |-> <<>>]
Init == l = 1 /\ ph = "idle" /\ W = NoDecl /\ R = NoDecl /\ i = 1 /\ cnt = ZeroCnt /\ mayfail = FALSE /\ viol = <<>>
B(x) == IF x THEN 1 ELSE 0

Case(e) == /\ e.ev = "case" /\ ph \in {"idle", "done"}
           /\ W' = e.w /\ R' = e.r /\ ph' = "w0" /\ i' = 1 /\ cnt' = ZeroCnt /\ mayfail' = FALSE /\ UNCHANGED viol
ANew(e) == /\ e.ev = "anew" /\ ph = "w0"
           /\ viol' = Flag(e.ver = WVersion(W) /\ e.buf = B(WBuffered(W)), "the writer does not announce the version of its declaration")
           /\ ph' = "w" /\ i' = NextSer(W.fields, 1) /\ UNCHANGED <<W, R, cnt, mayfail>>
WF(e) == /\ e.ev = "wf" /\ ph = "w"
         /\ IF i > Len(W.fields)
            THEN viol' = Flag(FALSE, "a field is written that the declaration does not serialise") /\ UNCHANGED i
            ELSE /\ viol' = Flag(e.n = W.fields[i].n /\ e.chunk = WChunk(W, W.fields[i]) /\ e.buf = B(WBuffered(W)),
                                 "fields are not written in declaration order, each to the chunk of the step that added it")
                 /\ i' = NextSer(W.fields, i + 1)
         /\ UNCHANGED <<ph, W, R, cnt, mayfail>>
AFin(e) == /\ e.ev = "afin" /\ ph = "w"
           /\ viol' = Flag(i > Len(W.fields) /\ e.nb = WBuffers(W), "finish before every field was written / wrong number of chunks")
           /\ ph' = "wfin" /\ UNCHANGED <<W, R, i, cnt, mayfail>>
WEnd(e) == /\ e.ev = "wend" /\ ph = "wfin"
           /\ viol' = Flag(e.ok = 1, "encoding a value of a legal declaration failed")
           /\ ph' = "r0" /\ UNCHANGED <<W, R, i, cnt, mayfail>>
DNew(e) == /\ e.ev = "dnew" /\ ph = "r0"
           /\ viol' = Flag(e.stored = WVersion(W) /\ e.ver = WVersion(R) /\ e.nin = WBuffers(W),
                           "the reader does not see the writer's version / its own version / one region per header entry")
           /\ ph' = "r" /\ i' = NextSer(R.fields, 1) /\ cnt' = ZeroCnt /\ mayfail' = FALSE /\ UNCHANGED <<W, R>>
RF(e) == /\ e.ev = "rf" /\ ph = "r"
         /\ IF i > Len(R.fields)
            THEN viol' = Flag(FALSE, "a field is read that the declaration does not serialise") /\ UNCHANGED <<i, cnt, ph, mayfail>>
            ELSE LET f == R.fields[i] k == ReadKind(W, R, f, cnt) IN
                 /\ viol' = Flag(e.n = f.n /\ e.kind = k /\ (k \in {0, 4} \/ e.chunk = Gen(R.steps, f.n)),
                                 "the decision taken for a field is not the one the header and the declaration determine")
                 /\ cnt' = CntAfter(R, f, k, cnt)
                 /\ i' = NextSer(R.fields, i + 1)
                 /\ ph' = IF Fatal(f, k) THEN "rfail" ELSE "r"
                 /\ mayfail' = MayFail(k)
         /\ UNCHANGED <<W, R>>
REnd(e) == /\ e.ev = "rend" /\ ph \in {"r", "rfail"}
           /\ viol' = Flag(IF ph = "rfail" THEN e.ok = 0
                           ELSE IF e.ok = 1 THEN i > Len(R.fields)
                           ELSE mayfail,
                           "the read ends with a result the decisions do not explain")
           /\ ph' = "done" /\ UNCHANGED <<W, R, i, cnt, mayfail>>

Next == /\ l <= Len(Rec)
        /\ LET e == Rec[l] IN Case(e) \/ ANew(e) \/ WF(e) \/ AFin(e) \/ WEnd(e) \/ DNew(e) \/ RF(e) \/ REnd(e)
        /\ l' = l + 1
Spec == Init /\ [][Next]_vars
Accepted == IF TLCGet("stats").diameter - 1 # Len(Rec)
            THEN PrintT(<<"SHAPE", TLCGet("stats").diameter, Rec[TLCGet("stats").diameter]>>) /\ FALSE ELSE TRUE
NoViolation == viol = <<>> \/ (PrintT(<<"REJECTED", viol[1], viol[2], Rec[viol[1]]>>) /\ FALSE)
=============================================================================
