----------------------------- MODULE Trace_Adt -----------------------------
(***************************************************************************)
(* Trace validation of the record mechanism (C02, C03): the decisions the   *)
(* running library takes per field, recorded by the hooks in                *)
(* AdtSerializer / AdtDeserializer, against the table of AdtMech.tla.       *)
(*                                                                         *)
(* One replayed evolution case (writer declaration w, reader declaration r, *)
(* as emitted by MC_Evo) is recorded as                                     *)
(*   {"ev":"case","w":decl,"r":decl}                                        *)
(*   {"ev":"anew","ver":k,"buf":0|1}        AdtSerializer::new / new_v0     *)
(*   {"ev":"wf","chunk":c,"buf":0|1,"n":name}   write_field                 *)
(*   {"ev":"afin","nb":n}                   finish                          *)
(*   {"ev":"wend","ok":0|1}                 the encoding call returned      *)
(*   {"ev":"dnew","stored":s,"nin":n,"ver":k}   AdtDeserializer::new[_v0]   *)
(*   {"ev":"rf","kind":0..7,"chunk":c,"n":name}  read_[optional_]field      *)
(*   {"ev":"rend","ok":0|1}                 the decoding call returned      *)
(* and, around these, for a value of an enum ("vi": the constructor):       *)
(*   {"ev":"wc","idx":k}  write_constructor   {"ev":"rc","idx":k,"case":j}  *)
(*   read_constructor (case j tried against the stored index k)             *)
(* (only declarations whose fields are not records themselves are traced,   *)
(* so every event belongs to the record of the case).                       *)
(*                                                                         *)
(* A deviation from the table is a violation (viol); an event that no       *)
(* phase of the protocol expects is a shape problem (specification drift).  *)
(***************************************************************************)
EXTENDS AdtMech, Json, IOUtils
Rec == ndJsonDeserialize(IOEnv.TRACE)
VARIABLES l, ph, W, R, i, cnt, mayfail, viol,
          en          \* enum layer of the case: [on, widx (constructor index on the wire), next (reader case to be tried)]
vars == <<l, ph, W, R, i, cnt, mayfail, viol, en>>
Flag(cond, why) == IF viol = <<>> /\ ~cond THEN <<l, why>> ELSE viol
NoDecl == [fields |-> <<>>, steps |-> <<>>]
NoEnum == [on |-> FALSE, widx |-> 0, next |-> 0]
Init == l = 1 /\ ph = "idle" /\ W = NoDecl /\ R = NoDecl /\ i = 1 /\ cnt = ZeroCnt /\ mayfail = FALSE /\ viol = <<>> /\ en = NoEnum
B(x) == IF x THEN 1 ELSE 0

\* an enum value: the enum's own (headerless) record around the record of the constructor.  The constructor is
\* written as its index in constructor order; the reader tries its cases in that order up to the stored index.
VariantAsStruct(E, v) == StructT(E.variants[v].fields, E.variants[v].steps)
ReaderVariant(E, idx) == CHOOSE v \in 1..Len(E.variants) : CtorIndex(E, v) = idx
Case(e) == /\ e.ev = "case"
           /\ IF e.w.k = "enum"
              THEN /\ W' = VariantAsStruct(e.w, e.vi) /\ R' = VariantAsStruct(e.r, ReaderVariant(e.r, CtorIndex(e.w, e.vi)))
                   /\ en' = [on |-> TRUE, widx |-> CtorIndex(e.w, e.vi), next |-> 0] /\ ph' = "e0"
              ELSE W' = e.w /\ R' = e.r /\ en' = NoEnum /\ ph' = "w0"
           /\ i' = 1 /\ cnt' = ZeroCnt /\ mayfail' = FALSE
           /\ viol' = Flag(ph \in {"idle", "done"}, "the previous case ended before its protocol was complete")
ANewE(e) == /\ e.ev = "anew" /\ ph = "e0"
            /\ viol' = Flag(e.ver = 0 /\ e.buf = 0, "the enum's own record is not headerless")
            /\ ph' = "e1" /\ UNCHANGED <<W, R, i, cnt, mayfail, en>>
WC(e) == /\ e.ev = "wc" /\ ph = "e1"
         /\ viol' = Flag(e.idx = en.widx, "the constructor is not written as its index in constructor order")
         /\ ph' = "w0" /\ UNCHANGED <<W, R, i, cnt, mayfail, en>>
AFinE(e) == /\ e.ev = "afin" /\ ph = "efin"
            /\ viol' = Flag(e.nb = 0, "the enum's own record is not headerless")
            /\ ph' = "wfin" /\ UNCHANGED <<W, R, i, cnt, mayfail, en>>
DNewE(e) == /\ e.ev = "dnew" /\ ph = "r0" /\ en.on
            /\ viol' = Flag(e.stored = 0 /\ e.nin = 0 /\ e.ver = 0, "the enum's own record is not read as headerless")
            /\ ph' = "rc" /\ UNCHANGED <<W, R, i, cnt, mayfail, en>>
RC(e) == /\ e.ev = "rc" /\ ph = "rc"
         /\ viol' = Flag(e.idx = en.widx /\ e.case = en.next /\ e.case <= e.idx,
                         "the reader does not try its constructors in order up to the stored index")
         /\ en' = [en EXCEPT !.next = @ + 1, !.on = (e.case # e.idx)]     \* matched: the constructor's record follows
         /\ ph' = IF e.case = e.idx THEN "r0" ELSE "rc"
         /\ UNCHANGED <<W, R, i, cnt, mayfail>>
ANew(e) == /\ e.ev = "anew" /\ ph = "w0"
           /\ viol' = Flag(e.ver = WVersion(W) /\ e.buf = B(WBuffered(W)), "the writer does not announce the version of its declaration")
           /\ ph' = "w" /\ i' = NextSer(W.fields, 1) /\ UNCHANGED <<W, R, cnt, mayfail, en>>
WF(e) == /\ e.ev = "wf" /\ ph = "w"
         /\ IF i > Len(W.fields)
            THEN viol' = Flag(FALSE, "a field is written that the declaration does not serialise") /\ UNCHANGED i
            ELSE /\ viol' = Flag(e.n = W.fields[i].n /\ e.chunk = WChunk(W, W.fields[i]) /\ e.buf = B(WBuffered(W)),
                                 "fields are not written in declaration order, each to the chunk of the step that added it")
                 /\ i' = NextSer(W.fields, i + 1)
         /\ UNCHANGED <<ph, W, R, cnt, mayfail, en>>
AFin(e) == /\ e.ev = "afin" /\ ph = "w"
           /\ viol' = Flag(i > Len(W.fields) /\ e.nb = WBuffers(W), "finish before every field was written / wrong number of chunks")
           /\ ph' = (IF en.on THEN "efin" ELSE "wfin") /\ UNCHANGED <<W, R, i, cnt, mayfail, en>>
WEnd(e) == /\ e.ev = "wend" /\ ph = "wfin"
           /\ viol' = Flag(e.ok = 1, "encoding a value of a legal declaration failed")
           /\ ph' = "r0" /\ UNCHANGED <<W, R, i, cnt, mayfail, en>>
DNew(e) == /\ e.ev = "dnew" /\ ph = "r0" /\ ~en.on
           /\ viol' = Flag(e.stored = WVersion(W) /\ e.ver = WVersion(R) /\ e.nin = WBuffers(W),
                           "the reader does not see the writer's version / its own version / one region per header entry")
           /\ ph' = "r" /\ i' = NextSer(R.fields, 1) /\ cnt' = ZeroCnt /\ mayfail' = FALSE /\ UNCHANGED <<W, R, en>>
RF(e) == /\ e.ev = "rf" /\ ph = "r"
         /\ IF i > Len(R.fields)
            THEN viol' = Flag(FALSE, "a field is read that the declaration does not serialise") /\ UNCHANGED <<i, cnt, ph, mayfail>>
            ELSE LET f == R.fields[i] k == ReadKind(W, R, f, cnt) IN
                 /\ viol' = Flag(e.n = f.n /\ e.kind = k /\ (k \in {0, 4} \/ e.chunk = Gen(R.steps, f.n)),
                                 "the decision taken for a field is not the one the header and the declaration determine")
                 /\ cnt' = CntAfter(R, f, k, cnt)
                 /\ i' = NextSer(R.fields, i + 1)
                 /\ ph' = IF Fatal(f, k) THEN "rfail" ELSE "r"
                 /\ mayfail' = MayFail(k)
         /\ UNCHANGED <<W, R, en>>
REnd(e) == /\ e.ev = "rend" /\ ph \in {"r", "rfail"}
           /\ viol' = Flag(IF ph = "rfail" THEN e.ok = 0
                           ELSE IF e.ok = 1 THEN i > Len(R.fields)
                           ELSE mayfail,
                           "the read ends with a result the decisions do not explain")
           /\ ph' = "done" /\ UNCHANGED <<W, R, i, cnt, mayfail, en>>

\* the protocol: which event may come in which phase.  Anything else is a violation too (the model stays where it
\* is and waits for the next case), so that a trace of a deviating implementation is still read to its end.
InProtocol(e) ==
  \/ e.ev = "case"
  \/ (e.ev = "anew" /\ ph \in {"e0", "w0"})
  \/ (e.ev = "wc" /\ ph = "e1")
  \/ (e.ev = "wf" /\ ph = "w")
  \/ (e.ev = "afin" /\ ph \in {"w", "efin"})
  \/ (e.ev = "wend" /\ ph = "wfin")
  \/ (e.ev = "dnew" /\ ph = "r0")
  \/ (e.ev = "rc" /\ ph = "rc")
  \/ (e.ev = "rf" /\ ph = "r")
  \/ (e.ev = "rend" /\ ph \in {"r", "rfail"})
Unexpected(e) == /\ ~InProtocol(e)
                 /\ viol' = Flag(FALSE, "an event that the protocol of the record mechanism does not allow at this point")
                 /\ UNCHANGED <<ph, W, R, i, cnt, mayfail, en>>
Next == /\ l <= Len(Rec)
        /\ LET e == Rec[l] IN Unexpected(e) \/ Case(e) \/ ANewE(e) \/ WC(e) \/ AFinE(e) \/ DNewE(e) \/ RC(e) \/ ANew(e) \/ WF(e) \/ AFin(e) \/ WEnd(e) \/ DNew(e) \/ RF(e) \/ REnd(e)
        /\ l' = l + 1
Spec == Init /\ [][Next]_vars
Accepted == IF TLCGet("stats").diameter - 1 # Len(Rec)
            THEN PrintT(<<"SHAPE", TLCGet("stats").diameter, Rec[TLCGet("stats").diameter]>>) /\ FALSE ELSE TRUE
NoViolation == viol = <<>> \/ (PrintT(<<"REJECTED", viol[1], viol[2], Rec[viol[1]]>>) /\ FALSE)
=============================================================================
