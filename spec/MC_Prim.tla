------------------------------ MODULE MC_Prim ------------------------------
(***************************************************************************)
(* C15 (input side): the primitive readers as a small state machine        *)
(* (cursor over a byte string).  Every script of up to MaxOps primitive    *)
(* reads over every byte string up to MaxLen over the hostile alphabet.    *)
(* All three BinaryInput implementations must produce exactly these        *)
(* results, including where InputEnded first appears and how far the       *)
(* cursor has moved by then.  One TLC state per script.                    *)
(***************************************************************************)
EXTENDS Hostile, Json
CONSTANTS MaxOps, MaxLen
VARIABLE script
Ops == {"u8", "i8", "u16", "i32", "u64", "u128", "f32", "varu", "vari", "b0", "b1", "b3", "bhuge", "s0", "s1", "s3", "shuge"}
Init == script \in UNION {[1..n -> Ops] : n \in 1..MaxOps}
Next == UNCHANGED script
Spec == Init /\ [][Next]_script

Width(op) == CASE op \in {"u8", "i8", "b1", "s1"} -> 1 [] op = "u16" -> 2 [] op \in {"i32", "f32"} -> 4 [] op = "u64" -> 8
               [] op = "u128" -> 16 [] op \in {"b0", "s0"} -> 0 [] op \in {"b3", "s3"} -> 3 [] OTHER -> -1
\* one step: [res, p]
Step(op, b, p) ==
  IF op = "varu" THEN LET r == RdVarU(b, p, Len(b)) IN
       IF r.ok THEN [res |-> <<"u", r.u[1], r.u[2]>>, p |-> r.p] ELSE [res |-> <<"E">>, p |-> r.p]   \* bytes read so far stay consumed
  ELSE IF op = "vari" THEN LET r == RdVarI(b, p, Len(b)) IN
       IF r.ok THEN [res |-> <<"i", r.x>>, p |-> r.p] ELSE [res |-> <<"E">>, p |-> r.p]
  ELSE IF op \in {"bhuge", "shuge"} THEN [res |-> <<"E">>, p |-> p]                                  \* usize::MAX never fits
  ELSE IF Avail(p, Len(b)) < Width(op) THEN [res |-> <<"E">>, p |-> p]                               \* all-or-nothing
  ELSE IF op \in {"s0", "s1", "s3"} THEN [res |-> <<"s">>, p |-> p + Width(op)]
  ELSE [res |-> <<"b">> \o SubSeq(b, p, p + Width(op) - 1), p |-> p + Width(op)]
RECURSIVE Run(_, _, _, _)
Run(b, p, i, acc) == IF i > Len(script) THEN <<acc, p - 1>>
                     ELSE LET s == Step(script[i], b, p) IN Run(b, s.p, i + 1, Append(acc, s.res))
Inputs == StringsUpTo(MaxLen)
\* the cursor never leaves the buffer and never moves backwards
CursorSane == \A b \in Inputs : LET r == Run(b, 1, 1, <<>>) IN r[2] >= 0 /\ r[2] <= Len(b)
EmitCases == PrintT(<<"REPLAY", ToJson([script |-> script, alphabet |-> Alphabet, maxlen |-> MaxLen,
                                        runs |-> {<<b, Run(b, 1, 1, <<>>)>> : b \in Inputs}])>>)
=============================================================================
