-------------------------------- MODULE Adt --------------------------------
(***************************************************************************)
(* Records and their evolution.                                            *)
(*                                                                         *)
(* The mechanism (what the code does: metadata tables, header, chunks,     *)
(* regions, field positions) is Codec!EncRecord / Codec!DecRecord.  This   *)
(* module adds                                                             *)
(*   - evolution histories and which ones are legal,                       *)
(*   - Expected(H, w, r, v): the outcome the documentation promises when   *)
(*     version r reads what version w wrote, stated without reference to   *)
(*     bytes, chunks or positions,                                         *)
(*   - the property EvolutionOutcome: mechanism = documented outcome.      *)
(***************************************************************************)
EXTENDS Universe

Nm(c) == <<c>>                       \* a one-letter field name
OptT(t) == [k |-> "opt", e |-> t]

-----------------------------------------------------------------------------
(* History steps carry what is needed to transform the declaration:        *)
(*   [op, n, t, dv, at]  (t, dv, at only for "Added": type, default, index) *)
HStep(op, n, t, dv, at) == [op |-> op, n |-> n, t |-> t, dv |-> dv, at |-> at]

InsertAt(s, i, x) == SubSeq(s, 1, i) \o <<x>> \o SubSeq(s, i + 1, Len(s))

\* a value of type t that differs from the value the tests write: what a
\* transient field is reset to
RECURSIVE TrDefault(_)
TrDefault(t) ==
  CASE t.k = "u8" -> <<0, 77>>
    [] t.k = "str" -> <<3, 116, 114>>
    [] t.k = "dstr" -> <<3, 116, 114>>
    [] t.k = "opt" -> <<5, TrDefault(t.e)>>
    [] t.k = "vecu8" -> <<9, 77>>
    [] OTHER -> VS(t)[1]

ApplyStep(D, h) ==
  CASE h.op = "Added" ->
         StructT(InsertAt(D.fields, h.at, Fld(h.n, h.t, IF h.t.k = "opt" THEN "Option" ELSE "plain", FALSE, h.dv)),
                 Append(D.steps, Stp("Added", h.n, h.dv)))
    [] h.op = "MadeOptional" ->
         \* the type becomes Option<T>; a default declared by an earlier FieldAdded must
         \* now be an Option<T> expression
         StructT([i \in 1..Len(D.fields) |->
                    IF D.fields[i].n = h.n
                    THEN [D.fields[i] EXCEPT !.t = OptT(@), !.sp = "Option", !.dv = IF @ = <<>> THEN <<>> ELSE <<5, @>>]
                    ELSE D.fields[i]],
                 Append([j \in 1..Len(D.steps) |->
                           IF D.steps[j].op = "Added" /\ D.steps[j].n = h.n
                           THEN [D.steps[j] EXCEPT !.dv = <<5, @>>] ELSE D.steps[j]],
                        Stp("MadeOptional", h.n, <<>>)))
    [] h.op = "Removed" ->
         StructT(SelectSeq(D.fields, LAMBDA f : f.n # h.n), Append(D.steps, Stp("Removed", h.n, <<>>)))
    [] h.op = "MadeTransient" ->
         StructT([i \in 1..Len(D.fields) |->
                    IF D.fields[i].n = h.n THEN [D.fields[i] EXCEPT !.tr = TRUE, !.dv = TrDefault(D.fields[i].t)]
                    ELSE D.fields[i]],
                 Append(D.steps, Stp("MadeTransient", h.n, <<>>)))

RECURSIVE Ver(_, _, _)
Ver(D0, H, k) == IF k = 0 THEN D0 ELSE ApplyStep(Ver(D0, H, k - 1), H[k])

-----------------------------------------------------------------------------
(* Legality (property C03): names are unique over the whole history; a     *)
(* field is removed or made transient only when it is the last one         *)
(* serialised in its chunk; only a present, non-optional, serialised field *)
(* is made optional.  Added fields may be declared anywhere (they are      *)
(* routed by name).  The relative order of chunk-0 fields never changes    *)
(* because no step reorders fields.                                        *)
(***************************************************************************)
ChunkFields(D, c) == SelectSeq(Written(D.fields), LAMBDA f : Gen(D.steps, f.n) = c)
LastInChunk(D, n) == LET cf == ChunkFields(D, Gen(D.steps, n)) IN Len(cf) > 0 /\ cf[Len(cf)].n = n
UsedNames(D) == {D.fields[i].n : i \in 1..Len(D.fields)} \cup {D.steps[i].n : i \in 1..Len(D.steps)}

\* new names are interchangeable: always take the smallest unused one
FirstFree(avail) == IF avail = {} THEN {} ELSE {CHOOSE n \in avail : \A m \in avail : LexCmp(n, m, 1) <= 0}
\* NewNames: names available for added fields; AddTypes: their types;
\* NoLastRule = TRUE drops the "last in its chunk" condition (vacuity guard, DESIGN 9)
LegalStepsOf(D, NewNames, AddTypes, NoLastRule) ==
     {HStep("Added", n, t, VS(t)[Len(VS(t))], p) : n \in FirstFree(NewNames \ UsedNames(D)), t \in AddTypes, p \in 0..Len(D.fields)}
\cup {HStep("MadeOptional", D.fields[i].n, <<>>, <<>>, 0) :
        i \in {j \in 1..Len(D.fields) : D.fields[j].t.k # "opt" /\ ~D.fields[j].tr}}
\cup {HStep(o, D.fields[i].n, <<>>, <<>>, 0) : o \in {"Removed", "MadeTransient"},
        i \in {j \in 1..Len(D.fields) : ~D.fields[j].tr /\ (NoLastRule \/ LastInChunk(D, D.fields[j].n))}}

-----------------------------------------------------------------------------
(* Values of a declaration: per field a payload that names the field, so   *)
(* that a value taken from a neighbour's bytes is visible.                 *)
RECURSIVE Distinct(_, _)
Distinct(t, n) ==   \* n: field name (byte tuple); its first byte is the payload
  CASE t.k = "u8" -> <<<<0, n[1]>>>>
    [] t.k = "u16" -> <<<<0, n[1], n[1] + 1>>>>
    [] t.k \in {"str", "dstr"} -> <<<<3, n[1], n[1]>>>>
    [] t.k = "vecu8" -> <<<<9, n[1], 0, n[1]>>>>
    [] t.k = "opt" -> <<<<4>>>> \o [i \in 1..Len(Distinct(t.e, n)) |-> <<5, Distinct(t.e, n)[i]>>]
    [] OTHER -> Take(VS(t), 2)

\* all values <<20, x1 .. xn>> of a struct; transient fields hold a value different from their default
RECURSIVE FieldCombos(_, _)
FieldCombos(fields, i) ==
  IF i > Len(fields) THEN {<<>>}
  ELSE LET f == fields[i]
           \* a transient field holds values that differ from each other and from nothing in particular
           opts == IF f.tr THEN {Distinct(f.t, f.n)[Len(Distinct(f.t, f.n))], TrDefault(f.t)} ELSE SeqToSet(Distinct(f.t, f.n)) IN
       {<<x>> \o rest : x \in opts, rest \in FieldCombos(fields, i + 1)}
StructVals(D) == {<<20>> \o c : c \in FieldCombos(D.fields, 1)}

FieldIdx(D, n) == IF \E i \in 1..Len(D.fields) : D.fields[i].n = n
                  THEN CHOOSE i \in 1..Len(D.fields) : D.fields[i].n = n ELSE 0

-----------------------------------------------------------------------------
(* The documented outcome (evolution.rs doc comments, desert documentation) *)
StepIn(H, lo, hi, ops, n) == \E i \in (lo + 1)..hi : H[i].op \in ops /\ H[i].n = n

\* outcome for one field f of the reader's declaration: [ok, x] or [ok |-> FALSE, err, field]
ExpectedField(D0, H, w, r, v, f) ==
  LET DW == Ver(D0, H, w)
      iw == FieldIdx(DW, f.n) IN
  IF f.tr THEN [ok |-> TRUE, x |-> f.dv]                    \* transient: always its default
  ELSE IF r >= w THEN
       IF StepIn(H, w, r, {"Added"}, f.n) THEN [ok |-> TRUE, x |-> f.dv]      \* added later: default
       ELSE IF StepIn(H, w, r, {"MadeOptional"}, f.n) THEN [ok |-> TRUE, x |-> <<5, v[iw + 1]>>]   \* wrapped
       ELSE [ok |-> TRUE, x |-> v[iw + 1]]
  ELSE
       IF StepIn(H, r, w, {"Removed", "MadeTransient"}, f.n) THEN
          IF f.t.k = "opt" THEN [ok |-> TRUE, x |-> <<4>>]                    \* absent
          ELSE [ok |-> FALSE, err |-> "FieldRemoved", field |-> f.n]
       ELSE IF StepIn(H, r, w, {"MadeOptional"}, f.n) THEN
          IF v[iw + 1] = <<4>> THEN [ok |-> FALSE, err |-> "NoneForRequired", field |-> f.n]
          ELSE [ok |-> TRUE, x |-> v[iw + 1][2]]                              \* unwrapped
       ELSE [ok |-> TRUE, x |-> v[iw + 1]]

RECURSIVE ExpectedFrom(_, _, _, _, _, _, _)
ExpectedFrom(D0, H, w, r, v, fields, i) ==
  IF i > Len(fields) THEN [ok |-> TRUE, xs |-> <<>>]
  ELSE LET one == ExpectedField(D0, H, w, r, v, fields[i]) IN
       IF ~one.ok THEN one
       ELSE LET rest == ExpectedFrom(D0, H, w, r, v, fields, i + 1) IN
            IF ~rest.ok THEN rest ELSE [ok |-> TRUE, xs |-> <<one.x>> \o rest.xs]

\* what version r obtains from what version w wrote for value v
Expected(D0, H, w, r, v) ==
  LET e == ExpectedFrom(D0, H, w, r, v, Ver(D0, H, r).fields, 1) IN
  IF e.ok THEN [ok |-> TRUE, v |-> <<20>> \o e.xs] ELSE e

-----------------------------------------------------------------------------
(* Embeddings: the record alone, between two bytes in a tuple (headerless   *)
(* parent), as the chunk-1 field of a record between two chunk-0 bytes, and *)
(* twice in a vector inside such a chunk.                                   *)
\* ... and as a constructor of an enum (next to a unit constructor): the record of a constructor evolves like a
\* record type.  "AsVariant": a constructor with named fields; "AsTupleVariant": a positional one, whose fields are
\* called field0, field1, .. after their positions (that is the name the steps have to use, too).
Embeddings == {"Top", "InTuple", "InChunk", "InVecInChunk", "AsVariant", "AsTupleVariant"}
PosName(D, n) == IF \E i \in 1..Len(D.fields) : D.fields[i].n = n
                 THEN VariantFieldName((CHOOSE i \in 1..Len(D.fields) : D.fields[i].n = n) - 1) ELSE n
AsVariantT(D, shape) ==
  EnumT(<<VariantT(<<65, 97>>, "unit", <<>>, <<>>, FALSE),
          VariantT(<<86>>, IF Len(D.fields) = 0 THEN "unit" ELSE shape,     \* no fields left: a unit constructor with a history
                   [i \in 1..Len(D.fields) |-> IF shape = "tuple" THEN [D.fields[i] EXCEPT !.n = VariantFieldName(i - 1)] ELSE D.fields[i]],
                   [j \in 1..Len(D.steps) |-> IF shape = "tuple" THEN [D.steps[j] EXCEPT !.n = PosName(D, @)] ELSE D.steps[j]], FALSE)>>, FALSE)
\* positional names are stable between two versions when no field was ever dropped from the declaration and the
\* fields they share sit at the same positions (fields were only appended)
PositionsStable(DW, DR) ==
  /\ \A D \in {DW, DR} : \A j \in 1..Len(D.steps) : D.steps[j].op # "Removed"
  /\ \A i \in 1..Len(DW.fields) : \A j \in 1..Len(DR.fields) : DW.fields[i].n = DR.fields[j].n => i = j
EmbT(emb, D) ==
  CASE emb = "Top" -> D
    [] emb = "AsVariant" -> AsVariantT(D, "struct")
    [] emb = "AsTupleVariant" -> AsVariantT(D, "tuple")
    [] emb = "InTuple" -> [k |-> "tup", es |-> <<U8, D, U8>>]
    [] emb = "InChunk" -> [k |-> "inchunk", e |-> D]
    [] emb = "InVecInChunk" -> [k |-> "inchunk", e |-> [k |-> "vec", e |-> D]]
EmbV(emb, x) ==
  CASE emb = "Top" -> x
    [] emb \in {"AsVariant", "AsTupleVariant"} -> <<21, 2>> \o Tail(x)
    [] emb = "InTuple" -> <<10, <<0, 7>>, x, <<0, 9>>>>
    [] emb = "InChunk" -> <<20, <<0, 7>>, x, <<0, 9>>>>
    [] emb = "InVecInChunk" -> <<20, <<0, 7>>, <<8, x, x>>, <<0, 9>>>>

\* DESIGN section 9: embedded, headerless data, and the reader dropped a field
\* that the data contains: the format has no framing for it
Excluded(emb, DW, DR) ==
  /\ emb # "Top"
  /\ Len(DW.steps) = 0
  /\ \E i \in 1..Len(DW.fields) : ~DW.fields[i].tr /\
        (FieldIdx(DR, DW.fields[i].n) = 0 \/ DR.fields[FieldIdx(DR, DW.fields[i].n)].tr)
=============================================================================
