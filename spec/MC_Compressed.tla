---------------------------- MODULE MC_Compressed ----------------------------
(***************************************************************************)
(* C16 on the framing layer: announced lengths incl. hostile ones, opaque  *)
(* payloads, suffixes, every strict prefix.  One TLC state per (dlen, z).  *)
(***************************************************************************)
EXTENDS Compressed, TLC
VARIABLES dl, z
vars == <<dl, z>>
DLens == {<<0, 0>>, <<0, 1>>, <<0, 127>>, <<0, 128>>, <<0, 65536>>, <<0, P28 - 1>>, <<1, 0>>, <<15, P28 - 1>>}
Bytes3 == {0, 3, 128, 255}
Payloads == {<<a>> : a \in Bytes3} \cup {<<a, b>> : a \in Bytes3, b \in Bytes3} \cup {[i \in 1..130 |-> 7]}
Init == dl \in DLens /\ z \in Payloads
Next == UNCHANGED vars
Spec == Init /\ [][Next]_vars

Suffixes == {<<>>, <<0>>, <<255, 255>>, <<128>>}
FrameSelfDelimiting == \A s \in Suffixes : LET r == ReadFrame(Frame(dl, z) \o s) IN
   r.ok /\ r.dlen = dl /\ r.z = z /\ r.p = Len(Frame(dl, z)) + 1
FramePrefixRejected == LET f == Frame(dl, z) IN \A k \in 0..(Len(f) - 1) : ~ReadFrame(SubSeq(f, 1, k)).ok
\* whatever length is announced, the first reservation is capped
FirstRequestBounded == FirstRequest(dl) <= Cap /\ AllocAllowed(FirstRequest(dl), 0)
=============================================================================
