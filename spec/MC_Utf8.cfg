SPECIFICATION Spec
INVARIANT Same
CHECK_DEADLOCK FALSE
