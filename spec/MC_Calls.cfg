SPECIFICATION Spec
INVARIANTS OnceOnly ResultIndependent CtxFresh
PROPERTIES MetaStable CallsTerminate
CONSTANTS
 t1 = t1
 t2 = t2
 t3 = t3
 A = A
 B = B
 C = C
 Threads = {t1, t2, t3}
 Types = {A, B, C}
 Progs <- ProgsDef
 SharedTable = FALSE
 NoOnce = FALSE
