------------------------------- MODULE Codec -------------------------------
(***************************************************************************)
(* Functional layer of the desert format: the reference encoder            *)
(*   Enc(T, v, st)          -> [ok, b, st]  or  [ok |-> FALSE, err]        *)
(* and the strict reference decoder (leniencies of DESIGN 4.5, no others)  *)
(*   Dec(T, b, p, lim, st)  -> [ok, v, p, st] or [ok |-> FALSE, err]       *)
(* for every built-in codec, for records (structs, tuples) with evolution  *)
(* header and chunks, and for enums.                                       *)
(*                                                                         *)
(* T   type expression: a record with field k (kind) and kind-specific     *)
(*     fields (e, a, b, es, n, fields, steps, variants, sorted).           *)
(* v   model value: a tuple whose first element is a constructor tag and   *)
(*     whose other elements are small integers or model values.            *)
(*     Numbers wider than TLC's ints are big-endian digit tuples.          *)
(* b   byte sequence, p cursor (1-based), lim last readable index          *)
(*     (a chunk window ends at lim), st stream state (string table).       *)
(*                                                                         *)
(* err classes: "InputEnded" "BadTag" "BadUtf8" "BadChar" "BadStringId"    *)
(*   "BadCtor" "TransientCtor" "FieldRemoved" "FieldMissing"               *)
(*   "NoneForRequired" "BadValue" "BadLength" "UnsupportedChar"            *)
(*   "UnknownFieldRef", and the two pseudo classes                         *)
(*   "Unspecified"   the reference does not decide this input (L7, L10)    *)
(*   "HugeZeroWidth" count > 64 of elements with an empty encoding         *)
(*                   (DESIGN section 7, D14)                                *)
(***************************************************************************)
EXTENDS Integers, Sequences, FiniteSets, TLC, Varint
SX == INSTANCE SequencesExt      \* SX!FoldLeft is evaluated iteratively by TLC: long sequences decode in linear time

-----------------------------------------------------------------------------
(* Generic helpers *)

RECURSIVE Flatten(_)
Flatten(ss) == IF ss = <<>> THEN <<>> ELSE Head(ss) \o Flatten(Tail(ss))

Max(a, b) == IF a >= b THEN a ELSE b
Min(a, b) == IF a <= b THEN a ELSE b

\* lexicographic comparison of two integer tuples: -1, 0, 1 (shorter prefix first)
RECURSIVE LexCmp(_, _, _)
LexCmp(a, b, i) ==
  IF i > Len(a) /\ i > Len(b) THEN 0
  ELSE IF i > Len(a) THEN -1
  ELSE IF i > Len(b) THEN 1
  ELSE IF a[i] < b[i] THEN -1
  ELSE IF a[i] > b[i] THEN 1
  ELSE LexCmp(a, b, i + 1)

\* big-endian digit arithmetic on equal-length digit tuples
RECURSIVE SubDigitsFrom(_, _, _, _)
SubDigitsFrom(a, b, i, borrow) ==   \* a - b from digit i down to 1; requires a >= b
  IF i = 0 THEN a
  ELSE LET d == a[i] - b[i] - borrow IN
       IF d >= 0 THEN SubDigitsFrom([a EXCEPT ![i] = d], b, i - 1, 0)
       ELSE SubDigitsFrom([a EXCEPT ![i] = d + 256], b, i - 1, 1)
SubDigits(a, b) == SubDigitsFrom(a, b, Len(a), 0)

RECURSIVE AddSmallFrom(_, _, _)
AddSmallFrom(a, i, carry) ==        \* a + carry, carry small; overflow -> <<>>
  IF carry = 0 THEN a
  ELSE IF i = 0 THEN <<>>
  ELSE LET d == a[i] + carry IN AddSmallFrom([a EXCEPT ![i] = d % 256], i - 1, d \div 256)
AddSmall(a, c) == AddSmallFrom(a, Len(a), c)

RECURSIVE DigitsMod(_, _, _, _)
DigitsMod(a, i, acc, m) == IF i > Len(a) THEN acc ELSE DigitsMod(a, i + 1, (acc * 256 + a[i]) % m, m)

Rep(x, n) == [i \in 1..n |-> x]

\* minimal two's complement: drop redundant sign bytes
RECURSIVE StripSign(_)
StripSign(s) == IF Len(s) >= 2 /\ ((s[1] = 0 /\ s[2] < 128) \/ (s[1] = 255 /\ s[2] >= 128))
                THEN StripSign(Tail(s)) ELSE s

-----------------------------------------------------------------------------
(* UTF-8 well-formedness (Unicode 15 table 3-7) *)
Cont(c) == c >= 128 /\ c <= 191
RECURSIVE Utf8From(_, _)
Utf8From(s, i) ==
  IF i > Len(s) THEN TRUE
  ELSE LET c == s[i] n == Len(s) IN
    IF c < 128 THEN Utf8From(s, i + 1)
    ELSE IF c >= 194 /\ c <= 223 THEN i + 1 <= n /\ Cont(s[i + 1]) /\ Utf8From(s, i + 2)
    ELSE IF c = 224 THEN i + 2 <= n /\ s[i + 1] >= 160 /\ s[i + 1] <= 191 /\ Cont(s[i + 2]) /\ Utf8From(s, i + 3)
    ELSE IF (c >= 225 /\ c <= 236) \/ c = 238 \/ c = 239 THEN i + 2 <= n /\ Cont(s[i + 1]) /\ Cont(s[i + 2]) /\ Utf8From(s, i + 3)
    ELSE IF c = 237 THEN i + 2 <= n /\ s[i + 1] >= 128 /\ s[i + 1] <= 159 /\ Cont(s[i + 2]) /\ Utf8From(s, i + 3)
    ELSE IF c = 240 THEN i + 3 <= n /\ s[i + 1] >= 144 /\ s[i + 1] <= 191 /\ Cont(s[i + 2]) /\ Cont(s[i + 3]) /\ Utf8From(s, i + 4)
    ELSE IF c >= 241 /\ c <= 243 THEN i + 3 <= n /\ Cont(s[i + 1]) /\ Cont(s[i + 2]) /\ Cont(s[i + 3]) /\ Utf8From(s, i + 4)
    ELSE IF c = 244 THEN i + 3 <= n /\ s[i + 1] >= 128 /\ s[i + 1] <= 143 /\ Cont(s[i + 2]) /\ Cont(s[i + 3]) /\ Utf8From(s, i + 4)
    ELSE FALSE
\* the same table as a left-to-right automaton (TLC folds it in linear time; MC_Utf8 checks that it is Utf8From):
\* need = continuation bytes still expected, [lo, hi] = the range allowed for the next one
Utf8Step(a, c) ==
  IF ~a.ok THEN a
  ELSE IF a.need > 0
       THEN IF c >= a.lo /\ c <= a.hi THEN [ok |-> TRUE, need |-> a.need - 1, lo |-> 128, hi |-> 191] ELSE [a EXCEPT !.ok = FALSE]
  ELSE IF c < 128 THEN a
  ELSE IF c >= 194 /\ c <= 223 THEN [ok |-> TRUE, need |-> 1, lo |-> 128, hi |-> 191]
  ELSE IF c = 224 THEN [ok |-> TRUE, need |-> 2, lo |-> 160, hi |-> 191]
  ELSE IF (c >= 225 /\ c <= 236) \/ c = 238 \/ c = 239 THEN [ok |-> TRUE, need |-> 2, lo |-> 128, hi |-> 191]
  ELSE IF c = 237 THEN [ok |-> TRUE, need |-> 2, lo |-> 128, hi |-> 159]
  ELSE IF c = 240 THEN [ok |-> TRUE, need |-> 3, lo |-> 144, hi |-> 191]
  ELSE IF c >= 241 /\ c <= 243 THEN [ok |-> TRUE, need |-> 3, lo |-> 128, hi |-> 191]
  ELSE IF c = 244 THEN [ok |-> TRUE, need |-> 3, lo |-> 128, hi |-> 143]
  ELSE [a EXCEPT !.ok = FALSE]
ValidUtf8(s) == LET r == SX!FoldLeft(Utf8Step, [ok |-> TRUE, need |-> 0, lo |-> 128, hi |-> 191], s) IN r.ok /\ r.need = 0

-----------------------------------------------------------------------------
(* Kinds *)

FixedWidth(k) ==
  CASE k \in {"u8", "i8", "weekday", "month"} -> 1
    [] k \in {"u16", "i16"} -> 2
    [] k \in {"u32", "i32", "f32"} -> 4
    [] k \in {"u64", "i64", "f64"} -> 8
    [] k \in {"u128", "i128", "uuid"} -> 16
    [] k \in {"duration", "dtutc"} -> 12
    [] OTHER -> 0
IsFixed(k) == FixedWidth(k) > 0

SeqKinds == {"vec", "list", "arr", "hset", "bset", "hmap", "bmap"}
SetKinds == {"hset", "bset"}
MapKinds == {"hmap", "bmap"}
ByteKinds == {"vecu8", "arru8", "bytes", "bigint"}
Transparent == {"box", "rc", "arc"}

\* element type of a sequence-like type (maps are sequences of pairs)
ElemT(T) == IF T.k \in MapKinds THEN [k |-> "tup", es |-> <<T.a, T.b>>] ELSE T.e

\* types whose encoding is empty
RECURSIVE ZeroWidth(_)
ZeroWidth(T) == T.k \in {"unit", "phantom"} \/ (T.k \in Transparent /\ ZeroWidth(T.e))

\* names are byte tuples (ASCII)
TupleFieldName(i) == <<95, 48 + i>>                          \* "_0" ..
VariantFieldName(i) == <<102, 105, 101, 108, 100, 48 + i>>   \* "field0" ..

-----------------------------------------------------------------------------
(* Model order on values of orderable types (what Rust's Ord gives) *)
RECURSIVE Cmp(_, _, _)
CmpSigned(a, b) ==  \* two's complement digit tuples: flip the sign bit
  LexCmp(<<(a[2] + 128) % 256>> \o SubSeq(a, 3, Len(a)), <<(b[2] + 128) % 256>> \o SubSeq(b, 3, Len(b)), 1)
RECURSIVE CmpSeq(_, _, _, _)
CmpSeq(Ts, a, b, i) ==  \* a, b tuples of values from index i (both same length)
  IF i > Len(a) THEN 0
  ELSE LET c == Cmp(Ts[i - 1], a[i], b[i]) IN IF c # 0 THEN c ELSE CmpSeq(Ts, a, b, i + 1)
Cmp(T, a, b) ==
  CASE T.k \in {"u8", "u16", "u32", "u64", "u128", "bool", "char", "uuid", "str", "dstr", "vecu8"} -> LexCmp(a, b, 2)
    [] T.k \in {"i8", "i16", "i32", "i64", "i128"} -> CmpSigned(a, b)
    [] T.k = "unit" -> 0
    [] T.k = "opt" -> IF a[1] # b[1] THEN (IF a[1] = 4 THEN -1 ELSE 1)
                      ELSE IF a[1] = 4 THEN 0 ELSE Cmp(T.e, a[2], b[2])
    [] T.k = "tup" -> CmpSeq(T.es, a, b, 2)
    [] T.k \in Transparent -> Cmp(T.e, a, b)

RECURSIVE Orderable(_)
Orderable(T) ==
  \/ T.k \in {"u8", "u16", "u32", "u64", "u128", "bool", "char", "uuid", "str", "vecu8",
              "i8", "i16", "i32", "i64", "i128", "unit"}
  \/ (T.k \in {"opt"} \cup Transparent /\ Orderable(T.e))
  \/ (T.k = "tup" /\ \A i \in 1..Len(T.es) : Orderable(T.es[i]))

\* insertion sort of a sequence of values, dropping equal elements (later wins)
RECURSIVE InsertSorted(_, _, _)
InsertSorted(T, s, x) ==
  IF s = <<>> THEN <<x>>
  ELSE LET c == Cmp(T, x, Head(s)) IN
       IF c < 0 THEN <<x>> \o s
       ELSE IF c = 0 THEN <<x>> \o Tail(s)
       ELSE <<Head(s)>> \o InsertSorted(T, Tail(s), x)
RECURSIVE SortSet(_, _, _)
SortSet(T, vs, acc) == IF vs = <<>> THEN acc ELSE SortSet(T, Tail(vs), InsertSorted(T, acc, Head(vs)))
\* map: items are <<10, k, v>>; order by key, later value wins
RECURSIVE InsertSortedKey(_, _, _)
InsertSortedKey(T, s, x) ==
  IF s = <<>> THEN <<x>>
  ELSE LET c == Cmp(T, x[2], Head(s)[2]) IN
       IF c < 0 THEN <<x>> \o s
       ELSE IF c = 0 THEN <<x>> \o Tail(s)
       ELSE <<Head(s)>> \o InsertSortedKey(T, Tail(s), x)
RECURSIVE SortMap(_, _, _)
SortMap(T, vs, acc) == IF vs = <<>> THEN acc ELSE SortMap(T, Tail(vs), InsertSortedKey(T, acc, Head(vs)))

-----------------------------------------------------------------------------
(* Calendar validity (chrono 0.4) *)
IsLeap(y) == (y % 4 = 0 /\ y % 100 # 0) \/ y % 400 = 0
DaysIn(y, m) == IF m \in {1, 3, 5, 7, 8, 10, 12} THEN 31
                ELSE IF m \in {4, 6, 9, 11} THEN 30
                ELSE IF m = 2 THEN (IF IsLeap(y) THEN 29 ELSE 28) ELSE 0
MinYear == -262143
MaxYear == 262142
ValidDate(y, m, d) == y >= MinYear /\ y <= MaxYear /\ m >= 1 /\ m <= 12 /\ d >= 1 /\ d <= DaysIn(y, m)
\* the date is far enough from the representable range that applying a zone
\* offset cannot leave it
InnerDate(y) == y > MinYear /\ y < MaxYear
\* year (i32) <-> u32 pair
YearU32(y) == IF y >= 0 THEN U32(y) ELSE <<15, P28 + y>>   \* y >= -2^28
YearOfU32(u) == IF u[1] >= 8 THEN (u[1] - 16) * P28 + u[2] ELSE u[1] * P28 + u[2]
\* nanoseconds with an allowed leap second
ValidTime(h, m, s, nanoU) ==
  /\ h < 24 /\ m < 60 /\ s < 60 /\ nanoU[1] < 8
  /\ LET n == nanoU[1] * P28 + nanoU[2] IN n < 2000000000 /\ (n >= 1000000000 => s = 59)

Billion == <<59, 154, 202, 0>>       \* 10^9 as four big-endian digits

\* time zones (UTC Europe/Budapest America/New_York Asia/Kolkata) and decimal spellings (0 1 -1 0.5 -12.75 123456789012345678901234567890 1E-100 1e+100 0.000001)
\* the reference decides; everything else that is well-formed UTF-8 is
\* "Unspecified": chrono-tz's database and bigdecimal's parser are outside the format
KnownZones == {<<85, 84, 67>>,
               <<69, 117, 114, 111, 112, 101, 47, 66, 117, 100, 97, 112, 101, 115, 116>>,
               <<65, 109, 101, 114, 105, 99, 97, 47, 78, 101, 119, 95, 89, 111, 114, 107>>,
               <<65, 115, 105, 97, 47, 75, 111, 108, 107, 97, 116, 97>>}
KnownDecimals == {<<48>>,
                  <<49>>,
                  <<45, 49>>,
                  <<48, 46, 53>>,
                  <<45, 49, 50, 46, 55, 53>>,
                  <<49, 50, 51, 52, 53, 54, 55, 56, 57, 48, 49, 50, 51, 52, 53, 54, 55, 56, 57, 48, 49, 50, 51, 52, 53, 54, 55, 56, 57, 48>>,
                  <<49, 69, 45, 49, 48, 48>>,
                  <<49, 101, 43, 49, 48, 48>>,
                  <<48, 46, 48, 48, 48, 48, 48, 49>>,
                  <<49, 46, 53, 48>>, <<48, 46, 48, 48>>, <<49, 48, 48>>, <<50, 46, 53, 48, 48>>}

-----------------------------------------------------------------------------
(* Stream state: the string table.  ids are positions, from 1. *)
EmptySt == [strs |-> <<>>]
StrId(st, s) == IF \E i \in 1..Len(st.strs) : st.strs[i] = s
                THEN CHOOSE i \in 1..Len(st.strs) : st.strs[i] = s ELSE 0
\* what both sides do with a string offered to the table
StoreString(st, s) == IF StrId(st, s) # 0 THEN st ELSE [st EXCEPT !.strs = Append(@, s)]

EOk(b, st) == [ok |-> TRUE, b |-> b, st |-> st]
EErr(e) == [ok |-> FALSE, err |-> e]
DOk(v, p, st) == [ok |-> TRUE, v |-> v, p |-> p, st |-> st]
DErr(e) == [ok |-> FALSE, err |-> e]

\* plain string bytes
EncStrBytes(s) == VarI(Len(s)) \o s
\* a deduplicated string: bytes and new state
EncDedup(s, st) == LET id == StrId(st, s) IN
  IF id # 0 THEN EOk(VarI(-id), st) ELSE EOk(EncStrBytes(s), StoreString(st, s))

-----------------------------------------------------------------------------
(* Record metadata derived from evolution steps (AdtMetadata) *)
StepIdx(steps, op, n) ==
  IF \E i \in 1..Len(steps) : steps[i].op = op /\ steps[i].n = n
  THEN CHOOSE i \in 1..Len(steps) : steps[i].op = op /\ steps[i].n = n /\
         \A j \in (i + 1)..Len(steps) : ~(steps[j].op = op /\ steps[j].n = n)
  ELSE 0
Gen(steps, n) == StepIdx(steps, "Added", n)               \* chunk of field n
OptAt(steps, n) == StepIdx(steps, "MadeOptional", n)      \* version that made n optional
RemovedNames(steps) == {steps[i].n : i \in {j \in 1..Len(steps) : steps[j].op \in {"Removed", "MadeTransient"}}}

\* is the field read/written through the optional-field path (macro: by spelling)
IsOptF(f) == f.t.k = "opt" /\ f.sp # "alias"
Written(fields) == SelectSeq(fields, LAMBDA f : ~f.tr)

\* does header step i carry a field name (dedup string)?
NameStep(steps, i) ==
  \/ steps[i].op \in {"Removed", "MadeTransient"}
  \/ (steps[i].op = "MadeOptional" /\ steps[i].n \in RemovedNames(steps))

\* position byte of a made-optional field
PosByte(chunk, pos) == IF chunk = 0 THEN (256 - pos) % 256 ELSE chunk

-----------------------------------------------------------------------------
(* Declarations referred to by name (recursive types) and the in-chunk wrapper *)
Fld(n, t, sp, tr, dv) == [n |-> n, t |-> t, sp |-> sp, tr |-> tr, dv |-> dv]
Stp(op, n, dv) == [op |-> op, n |-> n, dv |-> dv]
StructT(fields, steps) == [k |-> "struct", fields |-> fields, steps |-> steps]
VariantT(n, shape, fields, steps, tr) == [n |-> n, shape |-> shape, fields |-> fields, steps |-> steps, tr |-> tr]
EnumT(variants, sorted) == [k |-> "enum", variants |-> variants, sorted |-> sorted]
NamedT(name) == [k |-> "named", name |-> name]

\* Recursive declarations.  "RecList": struct { v: u8, next: Option<Box<Self>> };
\* "RecTree": struct { v: u8, kids: Vec<Self> } with an added field;
\* "RecEnum": enum { Leaf(u8), Node { l: Box<Self>, r: Box<Self> } } (like Throwable in the golden test)
Named(name) ==
  CASE name = "RecList" ->
         StructT(<<Fld(<<118>>, [k |-> "u8"], "plain", FALSE, <<>>),
                   Fld(<<110, 101, 120, 116>>, [k |-> "opt", e |-> [k |-> "box", e |-> NamedT("RecList")]], "Option", FALSE, <<>>)>>, <<>>)
    [] name = "RecEvo" ->     \* a recursive record WITH a header at every level: struct { v: u8, next: Option<Box<Self>>, label: u8 (added) }
         StructT(<<Fld(<<118>>, [k |-> "u8"], "plain", FALSE, <<>>),
                   Fld(<<110, 101, 120, 116>>, [k |-> "opt", e |-> [k |-> "box", e |-> NamedT("RecEvo")]], "Option", FALSE, <<>>),
                   Fld(<<108, 97, 98, 101, 108>>, [k |-> "u8"], "plain", FALSE, <<0, 0>>)>>,
                 <<Stp("Added", <<108, 97, 98, 101, 108>>, <<0, 0>>)>>)
    [] name = "RecTree" ->
         StructT(<<Fld(<<118>>, [k |-> "u8"], "plain", FALSE, <<>>),
                   Fld(<<107, 105, 100, 115>>, [k |-> "vec", e |-> NamedT("RecTree")], "plain", FALSE, <<8>>)>>,
                 <<Stp("Added", <<107, 105, 100, 115>>, <<8>>)>>)
    [] name = "Throwable" ->   \* desert-scala's PersistedThrowable (golden data set)
         StructT(<<Fld(<<99, 108, 97, 115, 115, 95, 110, 97, 109, 101>>, [k |-> "str"], "plain", FALSE, <<>>),
                   Fld(<<109, 101, 115, 115, 97, 103, 101>>, [k |-> "str"], "plain", FALSE, <<>>),
                   Fld(<<115, 116, 97, 99, 107, 95, 116, 114, 97, 99, 101>>, [k |-> "vec", e |-> [k |-> "tup", es |-> <<[k |-> "opt", e |-> [k |-> "str"]], [k |-> "opt", e |-> [k |-> "str"]],
                                                                     [k |-> "opt", e |-> [k |-> "str"]], [k |-> "varu32"]>>]], "plain", FALSE, <<>>),
                   Fld(<<99, 97, 117, 115, 101>>, [k |-> "opt", e |-> [k |-> "box", e |-> NamedT("Throwable")]], "Option", FALSE, <<>>)>>, <<>>)
    [] name = "RecEnum" ->
         EnumT(<<VariantT(<<76, 101, 97, 102>>, "tuple", <<Fld(VariantFieldName(0), [k |-> "u8"], "plain", FALSE, <<>>)>>, <<>>, FALSE),
                 VariantT(<<78, 111, 100, 101>>, "struct",
                          <<Fld(<<108>>, [k |-> "box", e |-> NamedT("RecEnum")], "plain", FALSE, <<>>),
                            Fld(<<114>>, [k |-> "box", e |-> NamedT("RecEnum")], "plain", FALSE, <<>>)>>, <<>>, FALSE)>>, FALSE)

\* a record whose middle field lives in chunk 1: what it embeds is read through a
\* region that does not start at offset 0 (hand-written in the harness with the
\* public AdtSerializer / AdtDeserializer API)
InChunkStruct(T) ==
  StructT(<<Fld(<<112, 114, 101>>, [k |-> "u8"], "plain", FALSE, <<>>),
            Fld(<<109, 105, 100>>, T, "alias", FALSE, <<>>),
            Fld(<<112, 111, 115, 116>>, [k |-> "u8"], "plain", FALSE, <<>>)>>,
          <<Stp("Added", <<109, 105, 100>>, <<>>)>>)

-----------------------------------------------------------------------------
(* The encoder *)
RECURSIVE EncM(_, _, _, _), EncItems(_, _, _, _, _), EncTs(_, _, _, _, _, _), EncRecord(_, _, _, _, _),
          EncFieldsSeq(_, _, _, _, _), EncFieldsChunked(_, _, _, _, _, _, _)

\* items of one element type, one after the other, optionally each preceded by the flag 1
EncItems(m, T, vs, flagged, st) ==
  LET step(a, x) == IF ~a.ok THEN a
                    ELSE LET r == EncM(m, T, x, a.st) IN
                         IF ~r.ok THEN r ELSE EOk(a.b \o (IF flagged THEN <<1>> ELSE <<>>) \o r.b, r.st)
  IN SX!FoldLeft(step, EOk(<<>>, st), vs)

\* values vs[i..] of types Ts[i..] one after the other
EncTs(m, Ts, vs, i, off, st) ==   \* value of Ts[i] is vs[i + off]
  IF i > Len(Ts) THEN EOk(<<>>, st)
  ELSE LET r == EncM(m, Ts[i], vs[i + off], st) IN
       IF ~r.ok THEN r
       ELSE LET rest == EncTs(m, Ts, vs, i + 1, off, r.st) IN
            IF ~rest.ok THEN rest ELSE EOk(r.b \o rest.b, rest.st)

\* version-0 record body: the serialised fields in declaration order
\* fields: all fields; v: <<tag, value per field>>
EncFieldsSeq(m, fields, v, i, st) ==
  IF i > Len(fields) THEN EOk(<<>>, st)
  ELSE IF fields[i].tr THEN EncFieldsSeq(m, fields, v, i + 1, st)
  ELSE LET r == EncM(m, fields[i].t, v[i + 1], st) IN
       IF ~r.ok THEN r
       ELSE LET rest == EncFieldsSeq(m, fields, v, i + 1, r.st) IN
            IF ~rest.ok THEN rest ELSE EOk(r.b \o rest.b, rest.st)

\* evolved record body: fields are serialised in declaration order (that is the
\* order in which the string table sees them), each appended to the chunk of
\* the step that added it.  acc = [chunks: 0..k -> bytes, pos: name -> <<chunk, idx>>, cnt: 0..k -> Nat]
EncFieldsChunked(m, fields, steps, v, i, acc, st) ==
  IF i > Len(fields) THEN [ok |-> TRUE, acc |-> acc, st |-> st]
  ELSE IF fields[i].tr THEN EncFieldsChunked(m, fields, steps, v, i + 1, acc, st)
  ELSE LET f == fields[i]
           r == EncM(m, f.t, v[i + 1], st) IN
       IF ~r.ok THEN r
       ELSE LET c == Gen(steps, f.n)
                acc2 == [chunks |-> [acc.chunks EXCEPT ![c] = @ \o r.b],
                         pos |-> acc.pos \cup {<<f.n, c, acc.cnt[c]>>},
                         cnt |-> [acc.cnt EXCEPT ![c] = @ + 1]] IN
            EncFieldsChunked(m, fields, steps, v, i + 1, acc2, r.st)

\* registration of the names the header will carry, in step order, when the
\* record is opened (before any field): returns [forms: step -> bytes, st]
RECURSIVE OpenHeaderNames(_, _, _, _)
OpenHeaderNames(steps, i, forms, st) ==
  IF i > Len(steps) THEN [forms |-> forms, st |-> st]
  ELSE IF NameStep(steps, i)
       THEN LET r == EncDedup(steps[i].n, st) IN OpenHeaderNames(steps, i + 1, Append(forms, r.b), r.st)
       ELSE OpenHeaderNames(steps, i + 1, Append(forms, <<>>), st)

\* header of an evolved record; returns bytes or <<-1>> on UnknownFieldRef
RECURSIVE HeaderBytes(_, _, _, _)
HeaderBytes(steps, acc, forms, i) ==
  IF i > Len(steps) THEN <<>>
  ELSE LET s == steps[i]
           rest == HeaderBytes(steps, acc, forms, i + 1)
           one == IF NameStep(steps, i) THEN VarI(-2) \o forms[i]
                  ELSE IF s.op = "Added" THEN VarI(Len(acc.chunks[i]))
                  ELSE \* MadeOptional of a field that is not a removed name
                    IF \E q \in acc.pos : q[1] = s.n
                    THEN LET q == CHOOSE q \in acc.pos : q[1] = s.n IN VarI(-1) \o <<PosByte(q[2], q[3])>>
                    ELSE <<-1>>
       IN IF one = <<-1>> \/ rest = <<-1>> THEN <<-1>> ELSE one \o rest

\* a record (struct, enum case, tuple): version byte, [header], body
EncRecord(m, fields, steps, v, st) ==
  LET k == Len(steps) IN
  IF k = 0
  THEN LET r == EncFieldsSeq(m, fields, v, 1, st) IN
       IF ~r.ok THEN r ELSE EOk(<<0>> \o r.b, r.st)
  ELSE LET o == OpenHeaderNames(steps, 1, <<>>, st)
           acc0 == [chunks |-> [c \in 0..k |-> <<>>], pos |-> {}, cnt |-> [c \in 0..k |-> 0]]
           r == EncFieldsChunked(m, fields, steps, v, 1, acc0, o.st) IN
       IF ~r.ok THEN r
       ELSE LET hdr == HeaderBytes(steps, r.acc, o.forms, 1) IN
            IF hdr = <<-1>> THEN EErr("UnknownFieldRef")
            ELSE EOk(<<k>> \o VarI(Len(r.acc.chunks[0])) \o hdr
                       \o Flatten([c \in 1..(k + 1) |-> r.acc.chunks[c - 1]]), r.st)

\* constructor numbering of an enum: position after the optional sort by name
SortedBefore(E, i, j) ==   \* variant i comes before variant j in constructor order
  IF E.sorted
  THEN LET c == LexCmp(E.variants[i].n, E.variants[j].n, 1) IN c < 0 \/ (c = 0 /\ i < j)
  ELSE i < j
CtorIndex(E, i) == Cardinality({j \in 1..Len(E.variants) : SortedBefore(E, j, i)})   \* 0-based
VariantAt(E, idx) == CHOOSE i \in 1..Len(E.variants) : CtorIndex(E, i) = idx

EncM(m, T, v, st) ==
  CASE IsFixed(T.k) -> EOk(Tail(v), st)
    [] T.k = "bool" -> EOk(<<v[2]>>, st)
    [] T.k \in {"unit", "phantom"} -> EOk(<<>>, st)
    [] T.k = "char" -> IF Len(v) = 3 THEN EOk(<<v[2], v[3]>>, st) ELSE EErr("UnsupportedChar")
    [] T.k \in {"str", "bigdec"} -> EOk(EncStrBytes(Tail(v)), st)
    [] T.k = "dstr" -> EncDedup(Tail(v), st)
    [] T.k = "tz" -> EOk(<<1>> \o EncStrBytes(Tail(v)), st)
    [] T.k = "foffset" -> EOk(<<0>> \o VarI(v[2]), st)
    [] T.k = "varu32" -> EOk(VarUW(<<v[2], v[3]>>), st)      \* a bare var_u32 (hand-written codecs, e.g. line numbers)
    [] T.k = "ndate" -> EOk(VarUW(YearU32(v[2])) \o <<v[3], v[4]>>, st)
    [] T.k = "ntime" -> EOk(<<v[2], v[3], v[4]>> \o VarU(v[5]), st)
    [] T.k \in {"ndt", "dtlocal"} -> EncTs(m, <<[k |-> "ndate"], [k |-> "ntime"]>>, v, 1, 1, st)
    [] T.k = "dtfixed" -> EncTs(m, <<[k |-> "ndt"], [k |-> "foffset"]>>, v, 1, 1, st)
    [] T.k = "dttz" -> EncTs(m, <<[k |-> "ndt"], [k |-> "tz"]>>, v, 1, 1, st)
    [] T.k \in ByteKinds -> EOk(VarU(Len(v) - 1) \o Tail(v), st)
    [] T.k = "opt" -> IF v[1] = 4 THEN EOk(<<0>>, st)
                      ELSE LET r == EncM(m, T.e, v[2], st) IN IF r.ok THEN EOk(<<1>> \o r.b, r.st) ELSE r
    [] T.k = "res" -> IF v[1] = 6
                      THEN LET r == EncM(m, T.a, v[2], st) IN IF r.ok THEN EOk(<<1>> \o r.b, r.st) ELSE r
                      ELSE LET r == EncM(m, T.b, v[2], st) IN IF r.ok THEN EOk(<<0>> \o r.b, r.st) ELSE r
    [] T.k \in Transparent -> EncM(m, T.e, v, st)
    [] T.k \in SeqKinds ->
         IF m = "alt"   \* unknown-length form: marker, flagged items, terminator
         THEN LET r == EncItems(m, ElemT(T), Tail(v), TRUE, st) IN
              IF r.ok THEN EOk(VarI(-1) \o r.b \o <<0>>, r.st) ELSE r
         ELSE LET r == EncItems(m, ElemT(T), Tail(v), FALSE, st) IN
              IF r.ok THEN EOk(VarI(Len(v) - 1) \o r.b, r.st) ELSE r
    [] T.k = "tup" ->
         LET r == EncTs(m, T.es, v, 1, 1, st) IN
         IF ~r.ok THEN r
         ELSE IF m = "alt"  \* chunked form, as written for an evolved Scala case class:
                            \* version 1, chunk-0 size, one step the reader does not know
              THEN EOk(<<1>> \o VarI(Len(r.b)) \o <<0>> \o r.b, r.st)
              ELSE EOk(<<0>> \o r.b, r.st)
    [] T.k = "struct" -> EncRecord(m, T.fields, T.steps, v, st)
    [] T.k = "named" -> EncM(m, Named(T.name), v, st)
    [] T.k = "inchunk" -> EncM(m, InChunkStruct(T.e), v, st)
    [] T.k = "enum" -> LET var == T.variants[v[2]] IN
                       IF var.tr THEN EErr("TransientCtor")
                       ELSE LET r == EncRecord(m, var.fields, var.steps, <<20>> \o SubSeq(v, 3, Len(v)), st) IN
                            IF r.ok THEN EOk(<<0>> \o VarU(CtorIndex(T, v[2])) \o r.b, r.st) ELSE r

\* canonical form: what this writer emits
Enc(T, v, st) == EncM("canon", T, v, st)
\* alternative legal form (DESIGN 4.5 L4, L5): every sequence at every level in the
\* unknown-length form (never emitted by this writer for sized containers; emitted
\* for iterators without an exact size hint and by the Scala implementation) and
\* every tuple in chunked form
EncAlt(T, v, st) == EncM("alt", T, v, st)
\* only the outermost sequence in unknown-length form
EncUnknownForm(T, v, st) ==
  LET r == EncItems("canon", ElemT(T), Tail(v), TRUE, st) IN
  IF r.ok THEN EOk(VarI(-1) \o r.b \o <<0>>, r.st) ELSE r

-----------------------------------------------------------------------------
(* The reference decoder *)
RECURSIVE Dec(_, _, _, _, _),
          DecTs(_, _, _, _, _, _, _), DecRecord(_, _, _, _, _, _, _), ReadFields(_, _, _, _, _, _),
          ParseHeader(_, _, _, _, _)

Avail(p, lim) == lim - p + 1

\* n bytes as they are
DecRaw(b, p, lim, n) == IF Avail(p, lim) < n THEN DErr("InputEnded") ELSE [ok |-> TRUE, s |-> SubSeq(b, p, p + n - 1), p |-> p + n]

\* a length-prefixed byte run; the length is a u32 pair or an i32
DecRun(b, p, lim, signed) ==
  LET c == RdVarU(b, p, lim) IN
  IF ~c.ok THEN DErr("InputEnded")
  ELSE IF signed /\ UnZigZag(c.u) < 0 THEN DErr("BadLength")
  ELSE LET n == IF signed THEN UnZigZag(c.u) ELSE (IF Small(c.u) THEN c.u[2] ELSE P28) IN
       IF n > Avail(c.p, lim) THEN DErr("InputEnded")
       ELSE [ok |-> TRUE, s |-> SubSeq(b, c.p, c.p + n - 1), p |-> c.p + n]

DecString(b, p, lim) ==
  LET r == DecRun(b, p, lim, TRUE) IN
  IF ~r.ok THEN r ELSE IF ValidUtf8(r.s) THEN r ELSE DErr("BadUtf8")

\* a deduplicated string; returns [ok, s, p, st]
DecDedup(b, p, lim, st) ==
  LET c == RdVarI(b, p, lim) IN
  IF ~c.ok THEN DErr("InputEnded")
  ELSE IF c.x < 0
       THEN IF c.x < -2147483647 \/ -c.x > Len(st.strs) THEN DErr("BadStringId")
            ELSE [ok |-> TRUE, s |-> st.strs[-c.x], p |-> c.p, st |-> st]
       ELSE IF c.x > Avail(c.p, lim) THEN DErr("InputEnded")
       ELSE LET s == SubSeq(b, c.p, c.p + c.x - 1) IN
            IF ValidUtf8(s) THEN [ok |-> TRUE, s |-> s, p |-> c.p + c.x, st |-> StoreString(st, s)]
            ELSE DErr("BadUtf8")

\* n elements of type T (a left fold over 1..n: no recursion depth, no re-evaluation)
DecN(T, b, p, lim, st, n, acc) ==
  LET step(a, i) == IF ~a.ok THEN a
                    ELSE LET r == Dec(T, b, a.p, lim, a.st) IN
                         IF ~r.ok THEN r ELSE [ok |-> TRUE, vs |-> Append(a.vs, r.v), p |-> r.p, st |-> r.st]
  IN SX!FoldLeft(step, [ok |-> TRUE, vs |-> acc, p |-> p, st |-> st], [i \in 1..n |-> i])

\* flagged items up to the terminator: every round consumes at least one byte, so Avail + 1 rounds suffice
DecFlagged(T, b, p, lim, st, acc) ==
  LET step(a, i) ==
        IF ~a.ok \/ a.done THEN a
        ELSE IF Avail(a.p, lim) < 1 THEN DErr("InputEnded")
        ELSE IF b[a.p] = 0 THEN [a EXCEPT !.done = TRUE, !.p = a.p + 1]
        ELSE IF b[a.p] = 1 THEN LET r == Dec(T, b, a.p + 1, lim, a.st) IN
                                IF ~r.ok THEN r ELSE [ok |-> TRUE, done |-> FALSE, vs |-> Append(a.vs, r.v), p |-> r.p, st |-> r.st]
        ELSE DErr("BadTag")
      res == SX!FoldLeft(step, [ok |-> TRUE, done |-> FALSE, vs |-> acc, p |-> p, st |-> st], [i \in 1..(Max(Avail(p, lim), 0) + 1) |-> i])
  IN IF ~res.ok THEN res ELSE [ok |-> TRUE, vs |-> res.vs, p |-> res.p, st |-> res.st]

\* a sequence in either size form: [ok, vs, p, st]
DecSeq(T, b, p, lim, st) ==
  LET c == RdVarI(b, p, lim) IN
  IF ~c.ok THEN DErr("InputEnded")
  ELSE IF c.x = -1 THEN DecFlagged(T, b, c.p, lim, st, <<>>)
  ELSE IF c.x < 0 THEN DErr("BadLength")
  ELSE IF ZeroWidth(T)
       THEN IF c.x > 64 THEN DErr("HugeZeroWidth")
            ELSE [ok |-> TRUE, vs |-> Rep(<<2>>, c.x), p |-> c.p, st |-> st]
       ELSE IF c.x > Avail(c.p, lim) THEN DErr("InputEnded")   \* every element takes >= 1 byte
       ELSE DecN(T, b, c.p, lim, st, c.x, <<>>)

\* values of types Ts one after the other: [ok, vs, p, st]
DecTs(Ts, b, p, lim, st, i, acc) ==
  IF i > Len(Ts) THEN [ok |-> TRUE, vs |-> acc, p |-> p, st |-> st]
  ELSE LET r == Dec(Ts[i], b, p, lim, st) IN
       IF ~r.ok THEN r ELSE DecTs(Ts, b, r.p, lim, r.st, i + 1, Append(acc, r.v))

(***************************************************************************)
(* Evolution header: sv + 1 steps.  acc = [sizes, mo, rm, st]              *)
(*   sizes: per step the chunk size (0 for non-chunk steps)                *)
(*   mo: set of <<chunk, pos>> made optional, rm: set of removed names     *)
(***************************************************************************)
ParseHeader(b, p, lim, n, acc) ==
  IF n = 0 THEN [ok |-> TRUE, acc |-> acc, p |-> p]
  ELSE LET c == RdVarI(b, p, lim) IN
    IF ~c.ok THEN DErr("InputEnded")
    ELSE IF c.x = 0 THEN ParseHeader(b, c.p, lim, n - 1, [acc EXCEPT !.sizes = Append(@, 0)])
    ELSE IF c.x = -1 THEN
         IF Avail(c.p, lim) < 1 THEN DErr("InputEnded")
         ELSE LET pb == b[c.p]
                  fp == IF pb >= 128 THEN <<0, 256 - pb>> ELSE <<pb, 0>> IN
              ParseHeader(b, c.p + 1, lim, n - 1, [acc EXCEPT !.sizes = Append(@, 0), !.mo = @ \cup {fp}])
    ELSE IF c.x = -2 THEN
         LET r == DecDedup(b, c.p, lim, acc.st) IN
         IF ~r.ok THEN r
         ELSE ParseHeader(b, r.p, lim, n - 1, [acc EXCEPT !.sizes = Append(@, 0), !.rm = @ \cup {r.s}, !.st = r.st])
    ELSE IF c.x < 0 THEN DErr("BadLength")
    ELSE IF c.x > Avail(c.p, lim) THEN DErr("InputEnded")    \* a chunk cannot be larger than what is left
    ELSE ParseHeader(b, c.p, lim, n - 1, [acc EXCEPT !.sizes = Append(@, c.x)])

\* windows of the chunks laid out one after the other from p: seq of [lo, hi] (hi inclusive)
RECURSIVE Windows(_, _)
Windows(sizes, p) == IF sizes = <<>> THEN <<>>
                     ELSE <<[lo |-> p, hi |-> p + Head(sizes) - 1]>> \o Windows(Tail(sizes), p + Head(sizes))
RECURSIVE SumSeq(_)
SumSeq(s) == IF s = <<>> THEN 0 ELSE Head(s) + SumSeq(Tail(s))

(***************************************************************************)
(* Reading the fields of a record, in declaration order.                   *)
(* h  = [sv, mo, rm, chunked, wins]  what the data says                    *)
(* s  = [cur: chunk -> cursor, cnt: chunk -> fields seen, out: values, st] *)
(* For headerless data everything is read through cursor 0 up to lim.      *)
(***************************************************************************)
ReadFields(fields, steps, b, h, i, s) ==
  IF i > Len(fields) THEN [ok |-> TRUE, s |-> s]
  ELSE LET f == fields[i] IN
    IF f.tr THEN ReadFields(fields, steps, b, h, i + 1, [s EXCEPT !.out = Append(@, f.dv)])
    ELSE IF f.n \in h.rm THEN
         IF IsOptF(f) THEN ReadFields(fields, steps, b, h, i + 1, [s EXCEPT !.out = Append(@, <<4>>)])
         ELSE DErr("FieldRemoved")
    ELSE LET c == Gen(steps, f.n)
             fp == <<c, s.cnt[c]>>
             s1 == [s EXCEPT !.cnt[c] = @ + 1] IN
      IF h.sv < c THEN \* not in the data: declared default (read_field(name, None): error)
         IF f.dv = <<>> THEN DErr("FieldMissing")
         ELSE ReadFields(fields, steps, b, h, i + 1, [s1 EXCEPT !.out = Append(@, f.dv)])
      ELSE LET w == IF h.chunked THEN c ELSE 0
               q == s1.cur[w]
               lim == h.wins[w + 1].hi IN
        IF ~IsOptF(f) THEN
           IF fp \in h.mo THEN   \* written as Option by a newer definition
              IF Avail(q, lim) < 1 THEN DErr("InputEnded")
              ELSE IF b[q] = 0 THEN DErr("NoneForRequired")
              ELSE LET r == Dec(f.t, b, q + 1, lim, s1.st) IN
                   IF ~r.ok THEN r
                   ELSE ReadFields(fields, steps, b, h, i + 1, [s1 EXCEPT !.cur[w] = r.p, !.out = Append(@, r.v), !.st = r.st])
           ELSE LET r == Dec(f.t, b, q, lim, s1.st) IN
                IF ~r.ok THEN r
                ELSE ReadFields(fields, steps, b, h, i + 1, [s1 EXCEPT !.cur[w] = r.p, !.out = Append(@, r.v), !.st = r.st])
        ELSE IF h.sv < OptAt(steps, f.n) THEN  \* written before it became optional
             LET r == Dec(f.t.e, b, q, lim, s1.st) IN
             IF ~r.ok THEN r
             ELSE ReadFields(fields, steps, b, h, i + 1, [s1 EXCEPT !.cur[w] = r.p, !.out = Append(@, <<5, r.v>>), !.st = r.st])
        ELSE LET r == Dec(f.t, b, q, lim, s1.st) IN
             IF ~r.ok THEN r
             ELSE ReadFields(fields, steps, b, h, i + 1, [s1 EXCEPT !.cur[w] = r.p, !.out = Append(@, r.v), !.st = r.st])

\* A record as the reader with definition (fields, steps) sees it.
\* tag: constructor tag of the resulting value.
DecRecord(fields, steps, b, p, lim, st, tag) ==
  LET kr == Len(steps) IN
  IF Avail(p, lim) < 1 THEN DErr("InputEnded")
  ELSE LET sv == b[p] IN
    IF sv = 0 THEN
       LET h == [sv |-> 0, mo |-> {}, rm |-> {}, chunked |-> FALSE, wins |-> <<[lo |-> p + 1, hi |-> lim]>>]
           s0 == [cur |-> [c \in 0..kr |-> p + 1], cnt |-> [c \in 0..kr |-> 0], out |-> <<>>, st |-> st]
           r == ReadFields(fields, steps, b, h, 1, s0) IN
       IF ~r.ok THEN r ELSE DOk(<<tag>> \o r.s.out, r.s.cur[0], r.s.st)
    ELSE
       LET hp == ParseHeader(b, p + 1, lim, sv + 1, [sizes |-> <<>>, mo |-> {}, rm |-> {}, st |-> st]) IN
       IF ~hp.ok THEN hp
       ELSE LET total == SumSeq(hp.acc.sizes) IN
         IF total > Avail(hp.p, lim) THEN DErr("InputEnded")
         ELSE LET wins == Windows(hp.acc.sizes, hp.p)
                  mx == Max(kr, sv)
                  h == [sv |-> sv, mo |-> hp.acc.mo, rm |-> hp.acc.rm, chunked |-> TRUE, wins |-> wins]
                  s0 == [cur |-> [c \in 0..mx |-> IF c <= sv THEN wins[c + 1].lo ELSE 0],
                         cnt |-> [c \in 0..mx |-> 0], out |-> <<>>, st |-> hp.acc.st]
                  r == ReadFields(fields, steps, b, h, 1, s0) IN
              IF ~r.ok THEN r ELSE DOk(<<tag>> \o r.s.out, hp.p + total, r.s.st)

TupleFields(Ts) == [i \in 1..Len(Ts) |->
   [n |-> TupleFieldName(i - 1), t |-> Ts[i], sp |-> "alias", tr |-> FALSE, dv |-> <<>>]]

\* the enum body (constructor index, case record) read from window [q, lim]
DecEnumBody(T, b, q, lim, st) ==
  LET c == RdVarU(b, q, lim) IN
  IF ~c.ok THEN DErr("InputEnded")
  ELSE IF ~Small(c.u) \/ c.u[2] >= Len(T.variants) THEN DErr("BadCtor")
  ELSE LET i == VariantAt(T, c.u[2])
           var == T.variants[i] IN
       IF var.tr THEN DErr("TransientCtor")
       ELSE LET r == DecRecord(var.fields, var.steps, b, c.p, lim, st, 20) IN
            IF ~r.ok THEN r ELSE DOk(<<21, i>> \o Tail(r.v), r.p, r.st)

Dec(T, b, p, lim, st) ==
  CASE T.k = "bool" -> IF Avail(p, lim) < 1 THEN DErr("InputEnded") ELSE DOk(<<1, IF b[p] = 0 THEN 0 ELSE 1>>, p + 1, st)
    [] T.k \in {"unit", "phantom"} -> DOk(<<2>>, p, st)
    [] T.k = "char" -> IF Avail(p, lim) < 2 THEN DErr("InputEnded")
                       ELSE IF b[p] >= 216 /\ b[p] <= 223 THEN DErr("BadChar")
                       ELSE DOk(<<0, b[p], b[p + 1]>>, p + 2, st)
    [] T.k = "weekday" -> IF Avail(p, lim) < 1 THEN DErr("InputEnded")
                          ELSE IF b[p] >= 1 /\ b[p] <= 7 THEN DOk(<<0, b[p]>>, p + 1, st) ELSE DErr("BadValue")
    [] T.k = "month" -> IF Avail(p, lim) < 1 THEN DErr("InputEnded")
                        ELSE IF b[p] >= 1 /\ b[p] <= 12 THEN DOk(<<0, b[p]>>, p + 1, st) ELSE DErr("BadValue")
    [] T.k = "duration" ->
         LET r == DecRaw(b, p, lim, 12) IN
         IF ~r.ok THEN r
         ELSE LET secs == SubSeq(r.s, 1, 8) nanos == SubSeq(r.s, 9, 12) IN
              \* L6: nanoseconds >= 10^9 carry into the seconds (at most 4 times)
              LET q == IF LexCmp(nanos, Billion, 1) < 0 THEN 0
                       ELSE IF LexCmp(nanos, <<119, 53, 148, 0>>, 1) < 0 THEN 1
                       ELSE IF LexCmp(nanos, <<178, 208, 94, 0>>, 1) < 0 THEN 2
                       ELSE IF LexCmp(nanos, <<238, 107, 40, 0>>, 1) < 0 THEN 3 ELSE 4
                   n1 == IF q >= 1 THEN SubDigits(nanos, Billion) ELSE nanos
                   n2 == IF q >= 2 THEN SubDigits(n1, Billion) ELSE n1
                   n3 == IF q >= 3 THEN SubDigits(n2, Billion) ELSE n2
                   n4 == IF q >= 4 THEN SubDigits(n3, Billion) ELSE n3
                   s2 == AddSmall(secs, q) IN
              IF s2 = <<>> THEN DErr("BadValue") ELSE DOk(<<0>> \o s2 \o n4, r.p, st)
    [] T.k = "dtutc" ->
         LET r == DecRaw(b, p, lim, 12) IN
         IF ~r.ok THEN r
         ELSE LET secs == SubSeq(r.s, 1, 8) nanos == SubSeq(r.s, 9, 12) IN
              \* decided only inside +-2^40 seconds (about 34 000 years) and without leap second
              IF LexCmp(nanos, Billion, 1) >= 0 THEN DErr("Unspecified")
              ELSE IF SubSeq(secs, 1, 3) = <<0, 0, 0>> \/ SubSeq(secs, 1, 3) = <<255, 255, 255>>
                   THEN DOk(<<0>> \o r.s, r.p, st)
                   ELSE DErr("Unspecified")
    [] IsFixed(T.k) /\ T.k \notin {"weekday", "month", "duration", "dtutc"} -> LET r == DecRaw(b, p, lim, FixedWidth(T.k)) IN IF ~r.ok THEN r ELSE DOk(<<0>> \o r.s, r.p, st)
    [] T.k = "str" -> LET r == DecString(b, p, lim) IN IF ~r.ok THEN r ELSE DOk(<<3>> \o r.s, r.p, st)
    [] T.k = "bigdec" -> LET r == DecString(b, p, lim) IN IF ~r.ok THEN r ELSE IF r.s \in KnownDecimals THEN DOk(<<3>> \o r.s, r.p, st) ELSE DErr("Unspecified")
    [] T.k = "dstr" -> LET r == DecDedup(b, p, lim, st) IN IF ~r.ok THEN r ELSE DOk(<<3>> \o r.s, r.p, r.st)
    [] T.k = "tz" -> IF Avail(p, lim) < 1 THEN DErr("InputEnded")
                     ELSE IF b[p] # 1 THEN DErr("BadTag")
                     ELSE LET r == DecString(b, p + 1, lim) IN IF ~r.ok THEN r ELSE IF r.s \in KnownZones THEN DOk(<<3>> \o r.s, r.p, st) ELSE DErr("Unspecified")
    [] T.k = "varu32" -> LET c == RdVarU(b, p, lim) IN IF ~c.ok THEN DErr("InputEnded") ELSE DOk(<<17, c.u[1], c.u[2]>>, c.p, st)
    [] T.k = "foffset" -> IF Avail(p, lim) < 1 THEN DErr("InputEnded")
                          ELSE IF b[p] # 0 THEN DErr("BadTag")
                          ELSE LET c == RdVarI(b, p + 1, lim) IN
                               IF ~c.ok THEN DErr("InputEnded")
                               ELSE IF c.x > -86400 /\ c.x < 86400 THEN DOk(<<11, c.x>>, c.p, st) ELSE DErr("BadValue")
    [] T.k = "ndate" -> LET c == RdVarU(b, p, lim) IN
                        IF ~c.ok \/ Avail(c.p, lim) < 2 THEN DErr("InputEnded")
                        ELSE LET y == YearOfU32(c.u) IN
                             IF ValidDate(y, b[c.p], b[c.p + 1]) THEN DOk(<<12, y, b[c.p], b[c.p + 1]>>, c.p + 2, st)
                             ELSE DErr("BadValue")
    [] T.k = "ntime" -> IF Avail(p, lim) < 3 THEN DErr("InputEnded")
                        ELSE LET c == RdVarU(b, p + 3, lim) IN
                             IF ~c.ok THEN DErr("InputEnded")
                             ELSE IF ValidTime(b[p], b[p + 1], b[p + 2], c.u)
                                  THEN DOk(<<13, b[p], b[p + 1], b[p + 2], c.u[1] * P28 + c.u[2]>>, c.p, st)
                                  ELSE DErr("BadValue")
    [] T.k \in {"ndt", "dtlocal"} ->
         LET r == DecTs(<<[k |-> "ndate"], [k |-> "ntime"]>>, b, p, lim, st, 1, <<>>) IN
         IF ~r.ok THEN r ELSE DOk(<<14>> \o r.vs, r.p, st)
    [] T.k = "dtfixed" ->
         LET r == DecTs(<<[k |-> "ndt"], [k |-> "foffset"]>>, b, p, lim, st, 1, <<>>) IN
         IF ~r.ok THEN r
         ELSE \* the instant (local time minus offset) must itself be representable: decided exactly at both ends
              LET d == r.vs[1][2] t == r.vs[1][3] off == r.vs[2][2]
                  sod == t[2] * 3600 + t[3] * 60 + t[4] IN
              IF InnerDate(d[2]) THEN DOk(<<15>> \o r.vs, r.p, st)
              ELSE IF t[5] >= 1000000000 THEN DErr("Unspecified")
              ELSE IF d[2] = MaxYear /\ d[3] = 12 /\ d[4] = 31
                   THEN (IF sod - off <= 86399 THEN DOk(<<15>> \o r.vs, r.p, st) ELSE DErr("BadValue"))
              ELSE IF d[2] = MinYear /\ d[3] = 1 /\ d[4] = 1
                   THEN (IF sod - off >= 0 THEN DOk(<<15>> \o r.vs, r.p, st) ELSE DErr("BadValue"))
              ELSE DOk(<<15>> \o r.vs, r.p, st)
    [] T.k = "dttz" ->
         LET r == DecTs(<<[k |-> "ndt"], [k |-> "tz"]>>, b, p, lim, st, 1, <<>>) IN
         IF ~r.ok THEN r ELSE DOk(<<16>> \o r.vs, r.p, st)      \* the stored date-time is UTC: always representable
    [] T.k \in {"vecu8", "bytes"} -> LET r == DecRun(b, p, lim, FALSE) IN IF ~r.ok THEN r ELSE DOk(<<9>> \o r.s, r.p, st)
    [] T.k = "arru8" -> LET r == DecRun(b, p, lim, FALSE) IN
                        IF ~r.ok THEN r ELSE IF Len(r.s) # T.n THEN DErr("BadLength") ELSE DOk(<<9>> \o r.s, r.p, st)
    [] T.k = "bigint" -> LET r == DecRun(b, p, lim, FALSE) IN
                         IF ~r.ok THEN r
                         ELSE \* L7: redundant sign bytes are dropped; the empty string is zero
                           DOk(<<9>> \o (IF r.s = <<>> THEN <<0>> ELSE StripSign(r.s)), r.p, st)
    [] T.k = "opt" -> IF Avail(p, lim) < 1 THEN DErr("InputEnded")
                      ELSE IF b[p] = 0 THEN DOk(<<4>>, p + 1, st)
                      ELSE IF b[p] = 1 THEN LET r == Dec(T.e, b, p + 1, lim, st) IN IF ~r.ok THEN r ELSE DOk(<<5, r.v>>, r.p, r.st)
                      ELSE DErr("BadTag")
    [] T.k = "res" -> IF Avail(p, lim) < 1 THEN DErr("InputEnded")
                      ELSE IF b[p] = 1 THEN LET r == Dec(T.a, b, p + 1, lim, st) IN IF ~r.ok THEN r ELSE DOk(<<6, r.v>>, r.p, r.st)
                      ELSE IF b[p] = 0 THEN LET r == Dec(T.b, b, p + 1, lim, st) IN IF ~r.ok THEN r ELSE DOk(<<7, r.v>>, r.p, r.st)
                      ELSE DErr("BadTag")
    [] T.k \in Transparent -> Dec(T.e, b, p, lim, st)
    [] T.k \in {"vec", "list"} -> LET r == DecSeq(T.e, b, p, lim, st) IN IF ~r.ok THEN r ELSE DOk(<<8>> \o r.vs, r.p, r.st)
    [] T.k = "arr" -> LET r == DecSeq(T.e, b, p, lim, st) IN
                      IF ~r.ok THEN r ELSE IF Len(r.vs) # T.n THEN DErr("BadLength") ELSE DOk(<<8>> \o r.vs, r.p, r.st)
    [] T.k \in SetKinds -> LET r == DecSeq(T.e, b, p, lim, st) IN
                           IF ~r.ok THEN r ELSE DOk(<<8>> \o SortSet(T.e, r.vs, <<>>), r.p, r.st)
    [] T.k \in MapKinds -> LET r == DecSeq(ElemT(T), b, p, lim, st) IN
                           IF ~r.ok THEN r ELSE DOk(<<8>> \o SortMap(T.a, r.vs, <<>>), r.p, r.st)
    [] T.k = "tup" -> DecRecord(TupleFields(T.es), <<>>, b, p, lim, st, 10)
    [] T.k = "struct" -> DecRecord(T.fields, T.steps, b, p, lim, st, 20)
    [] T.k = "named" -> Dec(Named(T.name), b, p, lim, st)
    [] T.k = "inchunk" -> Dec(InChunkStruct(T.e), b, p, lim, st)
    [] T.k = "enum" ->
         IF Avail(p, lim) < 1 THEN DErr("InputEnded")
         ELSE IF b[p] = 0 THEN DecEnumBody(T, b, p + 1, lim, st)
         ELSE \* an enum whose own record carries a header: its body is chunk 0 (L5)
           LET hp == ParseHeader(b, p + 1, lim, b[p] + 1, [sizes |-> <<>>, mo |-> {}, rm |-> {}, st |-> st]) IN
           IF ~hp.ok THEN hp
           ELSE LET total == SumSeq(hp.acc.sizes) IN
                IF total > Avail(hp.p, lim) THEN DErr("InputEnded")
                ELSE LET r == DecEnumBody(T, b, hp.p, hp.p + hp.acc.sizes[1] - 1, hp.acc.st) IN
                     IF ~r.ok THEN r ELSE DOk(r.v, hp.p + total, r.st)

\* top-level entry points
Encode(T, v) == Enc(T, v, EmptySt)
Decode(T, b) == Dec(T, b, 1, Len(b), EmptySt)
=============================================================================
