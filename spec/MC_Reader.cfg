SPECIFICATION Spec
INVARIANTS RegionInv ReadsInsideBuffer
PROPERTY ParentUntouched
CONSTANT MaxN = 4
CONSTRAINT Shallow
