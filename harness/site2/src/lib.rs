//! A second call site, in a crate of its own: the objects of the "offers" cases (C10) and functions that offer them
//! to / register them in a context.  Identity is the object - which crate, function or instantiation hands the
//! object to the table has no say (seeded S90: a table keyed by `*const dyn Any` compares the vtable of the caller's
//! coercion as well).
use desert_core::{DeserializationContext, Result, SerializationContext};

#[repr(C)]
pub struct Dept {
    pub head: Emp,
    pub size: u32,
}
pub struct Emp {
    pub id: u32,
}

pub fn offer_dept(ctx: &mut SerializationContext<Vec<u8>>, d: &Dept) -> Result<bool> {
    ctx.store_ref_or_object(d)
}
pub fn offer_emp(ctx: &mut SerializationContext<Vec<u8>>, e: &Emp) -> Result<bool> {
    ctx.store_ref_or_object(e)
}
pub fn register_dept(ctx: &mut DeserializationContext<'_>, d: &Dept) {
    ctx.state_mut().store_ref(d);
}
pub fn register_emp(ctx: &mut DeserializationContext<'_>, e: &Emp) {
    ctx.state_mut().store_ref(e);
}
/// the table's answer for the next reference of the stream, as the address of the object it names
pub fn next_ref(ctx: &mut DeserializationContext<'_>) -> Result<Option<usize>> {
    Ok(ctx.try_read_ref()?.map(|a| a as *const dyn std::any::Any as *const u8 as usize))
}
