//! C19 (b): decode paths that are (or were) implemented with unsafe code, replayed under Miri.
//! input: lines "<type id> <hex bytes>"; output: one line per vector "<index> ok|err".
//! Miri aborts the run with an "Undefined Behavior" report if any decode touches freed,
//! uninitialised or out-of-bounds memory.
use desert_core::{
    deserialize, BinaryDeserializer, BinaryInput, BinaryOutput, BinarySerializer, DeserializationContext,
    SerializationContext,
};
use std::cell::RefCell;
use std::rc::Rc;

struct Node {
    label: String,
    succ: Vec<NodeRef>,
}
#[derive(Clone)]
struct NodeRef(Rc<RefCell<Node>>);
struct Root(NodeRef);
thread_local! { static ARENA: RefCell<Vec<Box<NodeRef>>> = RefCell::new(Vec::new()); }
fn write_body<O: BinaryOutput>(n: &NodeRef, ctx: &mut SerializationContext<O>) -> desert_core::Result<()> {
    let node = n.0.borrow();
    node.label.serialize(ctx)?;
    ctx.write_u8(node.succ.len() as u8);
    for t in &node.succ {
        if ctx.store_ref_or_object(&*t.0)? {
            write_body(t, ctx)?;
        }
    }
    Ok(())
}
impl BinarySerializer for Root {
    fn serialize<O: BinaryOutput>(&self, ctx: &mut SerializationContext<O>) -> desert_core::Result<()> {
        if ctx.store_ref_or_object(&*(self.0).0)? {
            write_body(&self.0, ctx)?;
        }
        Ok(())
    }
}
fn read_ref(ctx: &mut DeserializationContext<'_>) -> desert_core::Result<NodeRef> {
    let known = ctx.try_read_ref()?.map(|any| any.downcast_ref::<NodeRef>().expect("node").clone());
    match known {
        Some(n) => Ok(n),
        None => read_body(ctx),
    }
}
fn read_body(ctx: &mut DeserializationContext<'_>) -> desert_core::Result<NodeRef> {
    let label = String::deserialize(ctx)?;
    let node = NodeRef(Rc::new(RefCell::new(Node { label, succ: Vec::new() })));
    ARENA.with(|a| {
        let mut a = a.borrow_mut();
        a.push(Box::new(node.clone()));
        let stable: &NodeRef = a.last().unwrap();
        ctx.state_mut().store_ref(stable);
    });
    let n = ctx.read_u8()?;
    for _ in 0..n {
        let t = read_ref(ctx)?;
        node.0.borrow_mut().succ.push(t);
    }
    Ok(node)
}
impl BinaryDeserializer for Root {
    fn deserialize(ctx: &mut DeserializationContext<'_>) -> desert_core::Result<Self> {
        Ok(Root(read_ref(ctx)?))
    }
}
fn count_nodes(r: &Root) -> usize {
    // walk the decoded graph (touches every node the table handed out)
    let mut seen: Vec<*const RefCell<Node>> = Vec::new();
    let mut stack = vec![r.0.clone()];
    while let Some(x) = stack.pop() {
        let p = Rc::as_ptr(&x.0);
        if seen.contains(&p) {
            continue;
        }
        seen.push(p);
        for t in &x.0.borrow().succ {
            stack.push(t.clone());
        }
    }
    seen.len()
}
fn break_cycles(r: &Root) {
    let mut stack = vec![r.0.clone()];
    let mut seen: Vec<*const RefCell<Node>> = Vec::new();
    while let Some(x) = stack.pop() {
        let p = Rc::as_ptr(&x.0);
        if seen.contains(&p) {
            continue;
        }
        seen.push(p);
        let kids: Vec<NodeRef> = x.0.borrow_mut().succ.drain(..).collect();
        stack.extend(kids);
    }
}

fn run<T: BinaryDeserializer + std::fmt::Debug>(b: &[u8]) -> bool {
    match deserialize::<T>(b) {
        Ok(v) => {
            // force a read of every byte of the value
            let s = format!("{:?}", v);
            std::hint::black_box(s.len());
            true
        }
        Err(_) => false,
    }
}

fn main() {
    let path = std::env::args().nth(1).expect("vectors file");
    let text = std::fs::read_to_string(path).expect("read vectors");
    for (i, line) in text.lines().enumerate() {
        let mut it = line.split_whitespace();
        let ty: u32 = it.next().unwrap().parse().unwrap();
        let hex = it.next().unwrap_or("");
        let b: Vec<u8> = (0..hex.len() / 2).map(|k| u8::from_str_radix(&hex[2 * k..2 * k + 2], 16).unwrap()).collect();
        let ok = match ty {
            0 => run::<[u32; 3]>(&b),
            1 => run::<[u8; 4]>(&b),
            2 => run::<Vec<u8>>(&b),
            3 => run::<[String; 2]>(&b),
            4 => run::<Vec<[u8; 2]>>(&b),
            5 => run::<bytes::Bytes>(&b),
            6 => run::<[u16; 3]>(&b),
            7 => run::<[bool; 3]>(&b),
            8 => {
                ARENA.with(|a| a.borrow_mut().clear());
                match deserialize::<Root>(&b) {
                    Ok(r) => {
                        std::hint::black_box(count_nodes(&r));
                        break_cycles(&r);
                        true
                    }
                    Err(_) => false,
                }
            }
            9 => run::<[u8; 0]>(&b),
            10 => run::<[u8; 1]>(&b),
            11 => run::<[u8; 3]>(&b),
            12 => run::<[(); 1]>(&b),
            13 => run::<[String; 0]>(&b),
            // decoders that build values of types with validity invariants (a conversion that skips the check is UB)
            14 => run::<char>(&b),
            15 => run::<Vec<char>>(&b),
            16 => run::<String>(&b),
            17 => run::<Option<String>>(&b),
            18 => match deserialize::<desert_core::DeduplicatedString>(&b) {
                Ok(v) => {
                    std::hint::black_box(format!("{:?}", v.0).len());
                    true
                }
                Err(_) => false,
            },
            19 => run::<bool>(&b),
            20 => run::<Vec<bool>>(&b),
            // the primitive readers with a cursor that safe code has moved past the end (the fields of SliceInput are
            // public): an error or a panic, never a read outside the slice
            21 => {
                use desert_core::BinaryInput;
                let mut any_ok = false;
                for over in [1usize, 2, 7] {
                    let data: &[u8] = &b;
                    let r = std::panic::catch_unwind(|| {
                        let mut i = desert_core::SliceInput { data, pos: data.len() + over };
                        let a = i.read_u8().is_ok();
                        let mut j = desert_core::SliceInput { data, pos: data.len() + over };
                        let c = j.read_var_u32().is_ok();
                        let mut k = desert_core::SliceInput { data, pos: data.len() + over };
                        let d = k.read_bytes(1).is_ok();
                        a || c || d
                    });
                    any_ok |= r.unwrap_or(false);
                }
                any_ok
            }
            // a compressed block (user codecs): the bytes handed back are the inflater's output - every one of them is
            // read here, so a buffer that was sized by the announced length and not filled is an error under Miri
            22 => {
                use desert_core::BinaryInput;
                let mut i = desert_core::SliceInput::new(&b);
                match i.read_compressed() {
                    Ok(v) => {
                        std::hint::black_box(v.iter().map(|x| *x as u64).sum::<u64>());
                        true
                    }
                    Err(_) => false,
                }
            }
            other => panic!("type {other}"),
        };
        println!("{} {}", i, if ok { "ok" } else { "err" });
    }
}
