//! kind = "codec": one (type, value) pair with the specification's bytes.
//!
//! {"kind":"codec","tid":17,"v":<model value>,"b":[..],"alt":[..],"perms":[[..],..],
//!  "hash":bool,"suffixes":[[..],..]}
use crate::ops::{Decoded, Outcome, TypeOps, SINKS};
use crate::runner::{bytes_of, Dispatch, Report};
use serde_json::{json, Value};

fn dec_json(o: &Outcome<Decoded>) -> Value {
    crate::ops::outcome_json(o, |d| json!({"v": d.v, "left": d.left}))
}
fn enc_json(o: &Outcome<Vec<u8>>) -> Value {
    crate::ops::outcome_json(o, |b| json!(b))
}

/// decode b and require value == want with `left` bytes unread
pub fn expect_dec(
    ops: &dyn TypeOps,
    b: &[u8],
    want: &Value,
    left: usize,
    check: &str,
    props: &[&str],
    r: &mut Report,
) {
    r.count(check);
    let got = ops.decode(b);
    let ok = matches!(&got, Outcome::Ok(d) if d.v == *want && d.left == left);
    if !ok {
        let mut p: Vec<&str> = props.to_vec();
        if got.is_panic() && !p.contains(&"C05") {
            p.push("C05");
        }
        r.finding(
            check,
            &p,
            json!({"ty": ops.rust_name(), "bytes": b, "want": {"v": want, "left": left}, "got": dec_json(&got)}),
        );
    }
}

pub fn codec_case(case: &Value, dispatch: Dispatch, r: &mut Report) {
    let tid = case["tid"].as_u64().unwrap() as usize;
    let ops = match dispatch(tid) {
        Some(o) => o,
        None => {
            r.skip("type not compiled");
            return;
        }
    };
    let v = &case["v"];
    let b = bytes_of(&case["b"]);
    let hash = case["hash"].as_bool().unwrap_or(false);
    let derived = case["derived"].as_bool().unwrap_or(false);
    let transient = case["transient"].as_bool().unwrap_or(false);
    let mut extra: Vec<&str> = case.get("props").and_then(|p| p.as_array()).map(|a| a.iter().filter_map(|x| x.as_str()).collect()).unwrap_or_default();
    if derived { extra.push("C02"); }
    if transient { extra.push("C14"); }
    let perms: Vec<Vec<u8>> = case["perms"].as_array().map(|a| a.iter().map(bytes_of).collect()).unwrap_or_default();
    // what decoding must yield (differs from v only where transient fields are reset)
    let dv = if case.get("dv").map(|x| !x.is_null()).unwrap_or(false) { &case["dv"] } else { v };
    // the value is not encodable: the specification names the error
    if let Some(class) = case.get("encerr").and_then(|x| x.as_str()).filter(|x| !x.is_empty()) {
        r.count("enc_refused");
        let ctor = case.get("ctor").filter(|c| c.is_array()).map(|c| String::from_utf8(bytes_of(c)).unwrap()).unwrap_or_default();
        let short = ops.rust_name().rsplit("::").next().unwrap_or("").to_string();
        let want_detail = format!("{short}::{ctor}");
        for (i, o) in ops.encode(v).iter().enumerate() {
            let ok = match o {
                // (a constructor name given as "*Name": the value is held somewhere inside, the error names the holder's enum)
                Outcome::Err(c, d) => *c == class && (class != "TransientCtor" || *d == want_detail
                    || (ctor.starts_with('*') && d.ends_with(&format!("::{}", &ctor[1..])))),
                _ => false,
            };
            if !ok {
                let mut props = vec!["C17", "C14"];
                if class != "TransientCtor" { props = vec!["C17"]; }
                r.finding("enc_refused", &props, json!({"ty": ops.rust_name(), "v": v, "sink": SINKS[i],
                    "want": [class, want_detail], "got": enc_json(o)}));
            }
        }
        return;
    }
    let want = match ops.canon(dv) {
        Ok(w) => w,
        Err(why) => {
            r.skip(&format!("value outside the glue's domain: {}", why.split(" @ ").next().unwrap_or("")));
            return;
        }
    };

    // --- implementation trace of the string table: writer run, then reader run on the writer's bytes
    if let Some(mut t) = crate::trace::TraceFile::open(case) {
        t.line(json!({"ev": "begin", "side": "w"}));
        t.start();
        let enc = crate::ops::stream_encode(&[(ops, v)]);
        let evs = t.stop();
        crate::trace::table_events(&mut t, &evs);
        t.line(json!({"ev": "end", "side": "w", "ok": enc.is_ok() as i32}));
        if let Outcome::Ok(real) = &enc {
            t.line(json!({"ev": "begin", "side": "r"}));
            t.start();
            let dec = ops.decode_top(real);
            let evs = t.stop();
            crate::trace::table_events(&mut t, &evs);
            t.line(json!({"ev": "end", "side": "r", "ok": dec.is_ok() as i32}));
        }
        t.flush();
        r.count("traced_values");
    }

    // --- implementation trace of the record / enum mechanism (Trace_Adt.tla): one writer run, one reader run
    if let Some(path) = case.get("atrace").and_then(|p| p.as_str()) {
        let tcase = json!({"trace": path});
        if let Some(mut t) = crate::trace::TraceFile::open(&tcase) {
            t.line(json!({"ev": "case", "w": case["decl"], "r": case["decl"], "vi": case["v"][1]}));
            t.start();
            let enc = crate::ops::stream_encode(&[(ops, v)]);
            let evs = t.stop();
            crate::trace::adt_events(&mut t, &evs);
            t.line(json!({"ev": "wend", "ok": enc.is_ok() as i32}));
            if let Outcome::Ok(real) = &enc {
                t.start();
                let dec = ops.decode_top(real);
                let evs = t.stop();
                crate::trace::adt_events(&mut t, &evs);
                t.line(json!({"ev": "rend", "ok": dec.is_ok() as i32}));
            }
            t.flush();
            r.count("adt_traced");
        }
    }

    // --- encode on every sink
    r.count("enc");
    let encs = ops.encode(v);
    let real: Option<Vec<u8>> = match &encs[0] {
        Outcome::Ok(bytes) => Some(bytes.clone()),
        Outcome::Panic(m) => {
            r.finding("enc_panic", &["C17", "C01"], json!({"ty": ops.rust_name(), "v": v, "panic": m}));
            None
        }
        Outcome::Err(c, d) => {
            r.finding("enc_err", &["C01", "C04"], json!({"ty": ops.rust_name(), "v": v, "err": c, "detail": d}));
            None
        }
    };
    if let Some(real) = &real {
        r.count("enc_bytes");
        let bytes_ok = if !hash {
            *real == b
        } else if !perms.is_empty() {
            perms.contains(real)
        } else {
            // unordered container below the top level: same length, same multiset of bytes
            let mut x = real.clone();
            let mut y = b.clone();
            x.sort();
            y.sort();
            x == y
        };
        if !bytes_ok {
            let mut props = vec!["C04"];
            props.extend(extra.iter());
            r.finding("enc_bytes", &props, json!({"ty": ops.rust_name(), "v": v, "spec": b, "impl": real, "hash": hash}));
        }
        // C15: all sinks agree, the size calculator is exact
        r.count("sinks");
        for i in 1..encs.len() {
            let same = match &encs[i] {
                Outcome::Ok(x) if i < 5 => x == real,
                Outcome::Ok(x) => *x == (real.len() as u64).to_be_bytes().to_vec(),
                _ => false,
            };
            // hash containers iterate in the same order within one process run only if
            // the same instance is used; encode_all serialises the same instance
            if !same {
                r.finding(
                    "sinks",
                    &["C15"],
                    json!({"ty": ops.rust_name(), "v": v, "sink": SINKS[i], "first": real, "other": enc_json(&encs[i])}),
                );
            }
        }
        // C01: decode(encode(v)) == v
        let mut p = vec![if derived { "C02" } else { "C01" }];
        p.extend(extra.iter());
        expect_dec(ops, real, &want, 0, "roundtrip", &p, r);
    }

    // --- the specification's bytes decode to the value (C04 converse direction)
    {
        let mut p = vec!["C04", if derived { "C02" } else { "C01" }];
        p.extend(extra.iter());
        expect_dec(ops, &b, &want, 0, "dec_spec_bytes", &p, r);
    }
    for p in &perms {
        if *p != b {
            expect_dec(ops, p, &want, 0, "dec_perm", &["C04"], r);
        }
    }
    if let Some(alt) = case.get("alt").filter(|a| a.is_array()) {
        let alt = bytes_of(alt);
        if alt != b {
            expect_dec(ops, &alt, &want, 0, "dec_alt_form", &["C04", "C12"], r);
        }
    }
    // top-level entry point agrees with the context path
    r.count("dec_top");
    match ops.decode_top(&b) {
        Outcome::Ok(x) if x == want => {}
        other => r.finding(
            "dec_top",
            &["C04", "C01"],
            json!({"ty": ops.rust_name(), "bytes": b, "want": want, "got": crate::ops::outcome_json(&other, |x| x.clone())}),
        ),
    }

    // --- C07: self-delimiting
    if let Some(sfx) = case["suffixes"].as_array() {
        for s in sfx {
            let s = bytes_of(s);
            if s.is_empty() {
                continue;
            }
            let mut bs = b.clone();
            bs.extend(&s);
            expect_dec(ops, &bs, &want, s.len(), "suffix", &["C07"], r);
        }
    }

    // --- C08: every strict prefix is rejected, also of the alternative legal form
    if let Some(alt) = case.get("alt").filter(|a| a.is_array()).map(bytes_of).filter(|a| *a != b) {
        for k in 0..alt.len() {
            r.count("prefix_alt");
            let got = ops.decode(&alt[..k]);
            if !got.is_err() {
                let p: &[&str] = if got.is_panic() { &["C08", "C05"] } else { &["C08"] };
                r.finding("prefix_alt", p, json!({"ty": ops.rust_name(), "full": alt, "cut": k, "got": dec_json(&got)}));
            }
        }
    }
    for k in 0..b.len() {
        r.count("prefix");
        let got = ops.decode(&b[..k]);
        match &got {
            Outcome::Err(..) => {}
            Outcome::Ok(_) => r.finding(
                "prefix",
                &["C08"],
                json!({"ty": ops.rust_name(), "full": b, "cut": k, "got": dec_json(&got)}),
            ),
            Outcome::Panic(_) => r.finding(
                "prefix",
                &["C08", "C05"],
                json!({"ty": ops.rust_name(), "full": b, "cut": k, "got": dec_json(&got)}),
            ),
        }
    }
}
