//! Counting global allocator: largest single request and peak live bytes since the last reset.
use std::alloc::{GlobalAlloc, Layout, System};
use std::sync::atomic::{AtomicU8, AtomicUsize, Ordering::Relaxed};

pub struct Counting;

static MAX_REQ: AtomicUsize = AtomicUsize::new(0);
static LIVE: AtomicUsize = AtomicUsize::new(0);
static PEAK: AtomicUsize = AtomicUsize::new(0);
static BASE: AtomicUsize = AtomicUsize::new(0);
/// non-zero: fresh memory (new blocks, the grown part of a reallocation) is filled with this byte, so that a
/// result which depends on uninitialised memory differs between two runs with different fillings
static POISON: AtomicU8 = AtomicU8::new(0);
const POISON_MAX: usize = 8 << 20;

pub fn set_poison(b: u8) {
    POISON.store(b, Relaxed);
}

fn note(size: usize) {
    if size > MAX_REQ.load(Relaxed) {
        MAX_REQ.store(size, Relaxed);
    }
    let live = LIVE.fetch_add(size, Relaxed) + size;
    if live > PEAK.load(Relaxed) {
        PEAK.store(live, Relaxed);
    }
}

unsafe impl GlobalAlloc for Counting {
    unsafe fn alloc(&self, layout: Layout) -> *mut u8 {
        note(layout.size());
        let p = System.alloc(layout);
        let fill = POISON.load(Relaxed);
        if fill != 0 && !p.is_null() && layout.size() <= POISON_MAX {
            std::ptr::write_bytes(p, fill, layout.size());
        }
        p
    }
    unsafe fn dealloc(&self, ptr: *mut u8, layout: Layout) {
        LIVE.fetch_sub(layout.size(), Relaxed);
        System.dealloc(ptr, layout)
    }
    unsafe fn alloc_zeroed(&self, layout: Layout) -> *mut u8 {
        note(layout.size());
        System.alloc_zeroed(layout)
    }
    unsafe fn realloc(&self, ptr: *mut u8, layout: Layout, new_size: usize) -> *mut u8 {
        if new_size > layout.size() {
            note(new_size - layout.size());
            if new_size > MAX_REQ.load(Relaxed) {
                MAX_REQ.store(new_size, Relaxed);
            }
        } else {
            LIVE.fetch_sub(layout.size() - new_size, Relaxed);
        }
        let p = System.realloc(ptr, layout, new_size);
        let fill = POISON.load(Relaxed);
        if fill != 0 && !p.is_null() && new_size > layout.size() && new_size - layout.size() <= POISON_MAX {
            std::ptr::write_bytes(p.add(layout.size()), fill, new_size - layout.size());
        }
        p
    }
}

/// start a measurement window
pub fn reset() {
    MAX_REQ.store(0, Relaxed);
    let live = LIVE.load(Relaxed);
    BASE.store(live, Relaxed);
    PEAK.store(live, Relaxed);
}
/// (largest single request, peak live bytes above the level at reset)
pub fn snapshot() -> (usize, usize) {
    (MAX_REQ.load(Relaxed), PEAK.load(Relaxed).saturating_sub(BASE.load(Relaxed)))
}
