//! kind = "raw": arbitrary bytes decoded into a type, compared with the reference decoder.
//!
//! {"kind":"raw","rt":tid,"b":[..],
//!  "exp":["ok",<value>,<bytes used>] | ["err",<class>,<detail or "">] | ["unspec"],
//!  "ok_props":[..]     properties violated when the implementation accepts differently than the reference (default C06)
//!  "must_props":[..]   properties violated when the reference accepts and the implementation does not
//!  "class_props":[..]  properties violated when both reject but the error class/detail differs}
//! A panic is always a C05 finding.
use crate::ops::Outcome;
use crate::runner::{bytes_of, Dispatch, Report};
use serde_json::{json, Value};

fn strs(v: &Value) -> Vec<&str> {
    v.as_array().map(|a| a.iter().filter_map(|x| x.as_str()).collect()).unwrap_or_default()
}

pub fn raw_case(case: &Value, dispatch: Dispatch, r: &mut Report) {
    let ops = match dispatch(case["rt"].as_u64().unwrap() as usize) {
        Some(o) => o,
        None => {
            r.skip("type not compiled");
            return;
        }
    };
    let b = bytes_of(&case["b"]);
    let exp = case["exp"].as_array().expect("exp");
    let ok_props = if case.get("ok_props").is_some() { strs(&case["ok_props"]) } else { vec!["C06"] };
    let must_props = strs(&case["must_props"]);
    let class_props = strs(&case["class_props"]);
    r.count("raw");
    let got = ops.decode(&b);
    let gj = crate::ops::outcome_json(&got, |d| json!({"v": d.v, "left": d.left}));
    if let Outcome::Panic(m) = &got {
        let mut p = vec!["C05"];
        p.extend(class_props.iter());
        r.finding("raw_panic", &p, json!({"ty": ops.rust_name(), "bytes": b, "panic": m, "exp": exp}));
        return;
    }
    match exp[0].as_str().unwrap() {
        "unspec" => {}
        "ok" => {
            let used = exp[2].as_u64().unwrap() as usize;
            match (&got, ops.canon(&exp[1])) {
                (_, Err(_)) => r.skip("expected value outside the glue's domain"),
                (Outcome::Ok(d), Ok(want)) => {
                    if d.v != want || b.len() - d.left != used {
                        r.finding("raw_differs", &ok_props, json!({"ty": ops.rust_name(), "bytes": b, "want": {"v": want, "used": used}, "got": gj}));
                    }
                }
                (Outcome::Err(..), Ok(want)) => {
                    if !must_props.is_empty() {
                        r.finding("raw_rejected", &must_props, json!({"ty": ops.rust_name(), "bytes": b, "want": want, "got": gj}));
                    } else {
                        r.count("raw_stricter");
                    }
                }
                _ => {}
            }
        }
        "err" => match &got {
            Outcome::Ok(_) => {
                r.finding("raw_accepted", &ok_props, json!({"ty": ops.rust_name(), "bytes": b, "want": exp, "got": gj}));
            }
            Outcome::Err(c, d) => {
                let wc = exp[1].as_str().unwrap_or("*");
                let wd = exp.get(2).and_then(|x| x.as_str()).unwrap_or("");
                let same = (wc == "*" || wc == *c) && (wd.is_empty() || wd == "*" || d.ends_with(wd));
                if !same {
                    if !class_props.is_empty() {
                        r.finding("raw_errclass", &class_props, json!({"ty": ops.rust_name(), "bytes": b, "want": exp, "got": gj}));
                    } else {
                        r.count("raw_other_class");
                    }
                }
            }
            _ => {}
        },
        other => panic!("exp kind {other}"),
    }
}
