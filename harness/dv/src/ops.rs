//! Calls into the library under test, under monitors (panic capture).
use crate::model::ModelType;
use bytes::BytesMut;
use desert_core::{
    serialize, serialize_to_byte_vec, serialize_to_bytes, BinaryDeserializer, BinaryInput,
    BinaryOutput, BinarySerializer, DeserializationContext, Error, SerializationContext,
    SizeCalculator,
};
use serde_json::{json, Value};
use std::cell::RefCell;
use std::marker::PhantomData;
use std::panic::{catch_unwind, AssertUnwindSafe};

thread_local! {
    static LAST_PANIC: RefCell<String> = RefCell::new(String::new());
}

pub fn install_panic_hook() {
    std::panic::set_hook(Box::new(|info| {
        let loc = info
            .location()
            .map(|l| format!("{}:{}", l.file(), l.line()))
            .unwrap_or_default();
        let msg = if let Some(s) = info.payload().downcast_ref::<&str>() {
            s.to_string()
        } else if let Some(s) = info.payload().downcast_ref::<String>() {
            s.clone()
        } else {
            "?".to_string()
        };
        LAST_PANIC.with(|p| *p.borrow_mut() = format!("{msg} @ {loc}"));
    }));
}

/// Run f; a panic becomes Err(message @ location).
pub fn guarded<R>(f: impl FnOnce() -> R) -> Result<R, String> {
    match catch_unwind(AssertUnwindSafe(f)) {
        Ok(r) => Ok(r),
        Err(_) => Err(LAST_PANIC.with(|p| p.borrow().clone())),
    }
}

/// Error class (as named in spec/Codec.tla) and detail (field / constructor name where the error carries one).
pub fn errclass(e: &Error) -> (&'static str, String) {
    match e {
        Error::InputEndedUnexpectedly => ("InputEnded", String::new()),
        Error::UnsupportedCharacter(c) => ("UnsupportedChar", format!("{:x}", *c as u32)),
        Error::FailedToDecodeCharacter(c) => ("BadChar", format!("{c:x}")),
        Error::LengthTooLarge => ("BadLength", String::new()),
        Error::InvalidTimeZone(m) => ("BadValue", m.clone()),
        Error::CompressionFailure(m) => ("Compression", m.clone()),
        Error::DecompressionFailure(m) => ("Decompression", m.clone()),
        Error::FailedToDecodeString(m) => ("BadUtf8", m.clone()),
        Error::InvalidStringId(id) => ("BadStringId", id.to_string()),
        Error::DeserializationFailure(m) => {
            if m.contains("invalid tag") || m.contains("Invalid type") {
                ("BadTag", m.clone())
            } else if m.contains("array") || m.contains("length") {
                ("BadLength", m.clone())
            } else {
                ("BadValue", m.clone())
            }
        }
        Error::UnknownFieldReferenceInEvolutionStep(n) => ("UnknownFieldRef", n.clone()),
        Error::InvalidConstructorName { constructor_name, type_name } => {
            ("BadCtorName", format!("{type_name}::{constructor_name}"))
        }
        Error::DeserializingNonExistingChunk(c) => ("BadChunk", c.to_string()),
        Error::FieldRemovedInSerializedVersion(n) => ("FieldRemoved", n.clone()),
        Error::FieldWithoutDefaultValueIsMissing(n) => ("FieldMissing", n.clone()),
        Error::NonOptionalFieldSerializedAsNone(n) => ("NoneForRequired", n.clone()),
        Error::InvalidRefId(id) => ("BadRefId", id.to_string()),
        Error::InvalidConstructorId { constructor_id, type_name } => {
            ("BadCtor", format!("{type_name}#{constructor_id}"))
        }
        Error::DeserializingTransientConstructor { constructor_name, type_name } => {
            ("TransientCtor", format!("{type_name}::{constructor_name}"))
        }
        Error::SerializingTransientConstructor { constructor_name, type_name } => {
            ("TransientCtor", format!("{type_name}::{constructor_name}"))
        }
    }
}

/// What happened: a value, an error, or a panic.  Serialised as JSON for reports.
#[derive(Debug, Clone, PartialEq)]
pub enum Outcome<T> {
    Ok(T),
    Err(&'static str, String),
    Panic(String),
}
impl<T> Outcome<T> {
    pub fn is_ok(&self) -> bool {
        matches!(self, Outcome::Ok(_))
    }
    pub fn is_err(&self) -> bool {
        matches!(self, Outcome::Err(..))
    }
    pub fn is_panic(&self) -> bool {
        matches!(self, Outcome::Panic(_))
    }
}
pub fn outcome_json<T>(o: &Outcome<T>, f: impl Fn(&T) -> Value) -> Value {
    match o {
        Outcome::Ok(x) => json!({"ok": f(x)}),
        Outcome::Err(c, d) => json!({"err": c, "detail": d}),
        Outcome::Panic(m) => json!({"panic": m}),
    }
}
fn lift<T>(r: Result<desert_core::Result<T>, String>) -> Outcome<T> {
    match r {
        Ok(Ok(x)) => Outcome::Ok(x),
        Ok(Err(e)) => {
            let (c, d) = errclass(&e);
            Outcome::Err(c, d)
        }
        Err(p) => Outcome::Panic(p),
    }
}

/// A user-defined output: records bytes and how they arrived.
#[derive(Default)]
pub struct RecordingOutput {
    pub data: Vec<u8>,
    pub calls_u8: usize,
    pub calls_bytes: usize,
}
impl BinaryOutput for RecordingOutput {
    fn write_u8(&mut self, value: u8) {
        self.calls_u8 += 1;
        self.data.push(value);
    }
    fn write_bytes(&mut self, bytes: &[u8]) {
        self.calls_bytes += 1;
        self.data.extend_from_slice(bytes);
    }
}

pub const SINKS: [&str; 6] = ["Vec<u8>", "BytesMut", "serialize_to_bytes", "serialize_to_byte_vec", "RecordingOutput", "SizeCalculator"];

/// Encode on every sink.  Index 5 (SizeCalculator) yields the size as 8 big-endian bytes.
pub fn encode_all<T: BinarySerializer>(x: &T) -> Vec<Outcome<Vec<u8>>> {
    vec![
        lift(guarded(|| serialize(x, Vec::<u8>::new()))),
        lift(guarded(|| serialize(x, BytesMut::new()).map(|b| b.to_vec()))),
        lift(guarded(|| serialize_to_bytes(x).map(|b| b.to_vec()))),
        lift(guarded(|| serialize_to_byte_vec(x))),
        lift(guarded(|| serialize(x, RecordingOutput::default()).map(|o| o.data))),
        lift(guarded(|| serialize(x, SizeCalculator::new()).map(|o| (o.size() as u64).to_be_bytes().to_vec()))),
    ]
}

pub struct Decoded {
    pub v: Value,
    /// bytes left unread in the context after the value
    pub left: usize,
}

/// Decode through a context and count what is left behind (public API only).
pub fn decode_ctx<T: BinaryDeserializer + ModelType>(b: &[u8]) -> Outcome<Decoded> {
    lift(guarded(|| {
        let mut ctx = DeserializationContext::new(b);
        let x = T::deserialize(&mut ctx)?;
        let mut left = 0usize;
        while ctx.read_u8().is_ok() {
            left += 1;
        }
        Ok(Decoded { v: x.to_model(), left })
    }))
}

/// Object-safe view of one concrete Rust type.
pub trait TypeOps: Sync {
    fn rust_name(&self) -> &'static str;
    /// canonical model form of a model value (through the Rust value)
    fn canon(&self, v: &Value) -> Result<Value, String>;
    fn encode(&self, v: &Value) -> Vec<Outcome<Vec<u8>>>;
    fn decode(&self, b: &[u8]) -> Outcome<Decoded>;
    /// top-level convenience entry point
    fn decode_top(&self, b: &[u8]) -> Outcome<Value>;
    /// write one value into a caller-owned context (several values share one stream)
    fn ser_into(&self, v: &Value, ctx: &mut SerializationContext<Vec<u8>>) -> desert_core::Result<()>;
    /// read one value from a caller-owned context
    fn de_from(&self, ctx: &mut DeserializationContext<'_>) -> desert_core::Result<Value>;
    /// items of this type written as a sequence through the public sequence entry points:
    /// [("iter_unknown", serialize_iterator over an iterator without exact size hint),
    ///  ("iter_exact", serialize_iterator over a slice iterator), ("slice", <[T] as BinarySerializer>)]
    fn encode_as_sequences(&self, items: &[Value]) -> Vec<(&'static str, Outcome<Vec<u8>>)>;
}

pub struct Ops<T>(pub PhantomData<fn() -> T>);
impl<T> Ops<T> {
    pub const NEW: Self = Ops(PhantomData);
}
impl<T: ModelType + BinarySerializer + BinaryDeserializer + 'static> TypeOps for Ops<T> {
    fn rust_name(&self) -> &'static str {
        std::any::type_name::<T>()
    }
    fn canon(&self, v: &Value) -> Result<Value, String> {
        guarded(|| T::from_model(v).to_model())
    }
    fn encode(&self, v: &Value) -> Vec<Outcome<Vec<u8>>> {
        match guarded(|| T::from_model(v)) {
            Ok(x) => encode_all(&x),
            Err(p) => vec![Outcome::Panic(format!("glue: {p}"))],
        }
    }
    fn decode(&self, b: &[u8]) -> Outcome<Decoded> {
        decode_ctx::<T>(b)
    }
    fn decode_top(&self, b: &[u8]) -> Outcome<Value> {
        lift(guarded(|| desert_core::deserialize::<T>(b).map(|x| x.to_model())))
    }
    fn ser_into(&self, v: &Value, ctx: &mut SerializationContext<Vec<u8>>) -> desert_core::Result<()> {
        T::from_model(v).serialize(ctx)
    }
    fn de_from(&self, ctx: &mut DeserializationContext<'_>) -> desert_core::Result<Value> {
        Ok(T::deserialize(ctx)?.to_model())
    }
    fn encode_as_sequences(&self, items: &[Value]) -> Vec<(&'static str, Outcome<Vec<u8>>)> {
        let xs: Vec<T> = match guarded(|| items.iter().map(T::from_model).collect()) {
            Ok(x) => x,
            Err(p) => return vec![("glue", Outcome::Panic(p))],
        };
        vec![
            ("iter_unknown", lift(guarded(|| {
                let mut ctx = SerializationContext::new(Vec::new());
                desert_core::serialize_iterator(&mut xs.iter().filter(|_| true), &mut ctx)?;
                Ok(ctx.into_output())
            }))),
            // an iterator whose size hint has an upper bound that is not tight: the filter drops the first element
            ("iter_dropping", lift(guarded(|| {
                let mut ctx = SerializationContext::new(Vec::new());
                let mut k = 0usize;
                desert_core::serialize_iterator(&mut xs.iter().filter(|_| { k += 1; k > 1 }), &mut ctx)?;
                Ok(ctx.into_output())
            }))),
            ("iter_exact", lift(guarded(|| {
                let mut ctx = SerializationContext::new(Vec::new());
                desert_core::serialize_iterator(&mut xs.iter(), &mut ctx)?;
                Ok(ctx.into_output())
            }))),
            ("slice", lift(guarded(|| {
                let mut ctx = SerializationContext::new(Vec::new());
                xs[..].serialize(&mut ctx)?;
                Ok(ctx.into_output())
            }))),
        ]
    }
}

/// several values through one context: [(type, value)] -> bytes
pub fn stream_encode(items: &[(&dyn TypeOps, &Value)]) -> Outcome<Vec<u8>> {
    lift(guarded(|| {
        let mut ctx = SerializationContext::new(Vec::new());
        for (ops, v) in items {
            ops.ser_into(v, &mut ctx)?;
        }
        Ok(ctx.into_output())
    }))
}
/// several values out of one context; returns the values and the bytes left
pub fn stream_decode(types: &[&dyn TypeOps], b: &[u8]) -> Outcome<(Vec<Value>, usize)> {
    lift(guarded(|| {
        let mut ctx = DeserializationContext::new(b);
        let mut out = Vec::new();
        for ops in types {
            out.push(ops.de_from(&mut ctx)?);
        }
        let mut left = 0usize;
        while ctx.read_u8().is_ok() {
            left += 1;
        }
        Ok((out, left))
    }))
}

/// Drive an explicit context (used by the string-table and primitive drivers).
pub fn with_ser_context<R>(f: impl FnOnce(&mut SerializationContext<Vec<u8>>) -> desert_core::Result<R>) -> Outcome<(R, Vec<u8>)> {
    lift(guarded(|| {
        let mut ctx = SerializationContext::new(Vec::new());
        let r = f(&mut ctx)?;
        Ok((r, ctx.into_output()))
    }))
}

/// C07: encodings of other values that may follow a value in a stream (emitted by the specification,
/// handed over in the file named by DV_FOLLOWERS); empty when the check does not provide them.
pub fn followers() -> &'static Vec<Vec<u8>> {
    static F: std::sync::OnceLock<Vec<Vec<u8>>> = std::sync::OnceLock::new();
    F.get_or_init(|| {
        std::env::var("DV_FOLLOWERS")
            .ok()
            .and_then(|p| std::fs::read_to_string(p).ok())
            .and_then(|t| serde_json::from_str::<Vec<Vec<u8>>>(&t).ok())
            .unwrap_or_default()
    })
}
