//! C11: variable-length integers through every sink / source pair.
//!
//! `spec_*` is a line-by-line transliteration of spec/VarintCore.tla (only `/` and `%`),
//! pinned to the TLC-evaluated vectors before it is used as the oracle of the sweep.
use crate::ops::guarded;
use crate::runner::{bytes_of, Dispatch, Report};
use bytes::BytesMut;
use desert_core::{BinaryInput, BinaryOutput, DeserializationContext, OwnedInput, SerializationContext, SizeCalculator, SliceInput};
use serde_json::{json, Value};

const P7: u64 = 128;
const P14: u64 = 16384;
const P21: u64 = 2097152;
const P28: u64 = 268435456;

fn grp(x: u64, i: u32) -> u64 {
    match i {
        0 => x % 128,
        1 => (x / P7) % 128,
        2 => (x / P14) % 128,
        3 => (x / P21) % 128,
        _ => x / P28,
    }
}
fn width(x: u64) -> u32 {
    if grp(x, 4) != 0 {
        5
    } else if grp(x, 3) != 0 {
        4
    } else if grp(x, 2) != 0 {
        3
    } else if grp(x, 1) != 0 {
        2
    } else {
        1
    }
}
pub fn spec_enc_u(x: u64, out: &mut [u8; 5]) -> usize {
    let w = width(x);
    for i in 0..w {
        out[i as usize] = (if i + 1 < w { grp(x, i) + 128 } else { grp(x, i) }) as u8;
    }
    w as usize
}
pub fn spec_zigzag(n: i64) -> u64 {
    if n >= 0 {
        (2 * n) as u64
    } else {
        (-2 * n - 1) as u64
    }
}

/// a BytesMut with exactly `spare` bytes of capacity left (the allocation state of a sink must not matter)
fn nearly_full(spare: usize) -> BytesMut {
    let mut b = BytesMut::with_capacity(64);
    b.extend_from_slice(&vec![0xEE; b.capacity() - spare]);
    b
}
/// a Vec<u8> that already holds other bytes, with `spare` bytes of capacity left: what is in the sink must not matter
fn used_vec(spare: usize) -> Vec<u8> {
    let mut v: Vec<u8> = Vec::with_capacity(16);
    v.extend_from_slice(&[0xFF, 0x80, 0xFE, 0x81, 0x00, 0x7F]);
    v.reserve_exact(spare);
    v
}
fn spare_ok_u(x: u32, want: &[u8]) -> bool {
    (0..=5).all(|s| {
        let mut b = nearly_full(s);
        let p = b.len();
        b.write_var_u32(x);
        let mut v = used_vec(s);
        v.write_var_u32(x);
        b[p..] == *want && v[..6] == [0xFF, 0x80, 0xFE, 0x81, 0x00, 0x7F] && v[6..] == *want && b[..p].iter().all(|y| *y == 0xEE)
    })
}
fn spare_ok_i(x: i32, want: &[u8]) -> bool {
    (0..=5).all(|s| {
        let mut b = nearly_full(s);
        let p = b.len();
        b.write_var_i32(x);
        let mut v = used_vec(s);
        v.write_var_i32(x);
        b[p..] == *want && v[..6] == [0xFF, 0x80, 0xFE, 0x81, 0x00, 0x7F] && v[6..] == *want && b[..p].iter().all(|y| *y == 0xEE)
    })
}
fn enc_all_u(x: u32) -> [Vec<u8>; 4] {
    let mut a = Vec::new();
    a.write_var_u32(x);
    let mut b = BytesMut::new();
    b.write_var_u32(x);
    let mut c = SizeCalculator::new();
    c.write_var_u32(x);
    let mut d = SerializationContext::new(Vec::new());
    d.write_var_u32(x);
    [a, b.to_vec(), vec![0; c.size()], d.into_output()]
}
fn enc_all_i(x: i32) -> [Vec<u8>; 4] {
    let mut a = Vec::new();
    a.write_var_i32(x);
    let mut b = BytesMut::new();
    b.write_var_i32(x);
    let mut c = SizeCalculator::new();
    c.write_var_i32(x);
    let mut d = SerializationContext::new(Vec::new());
    d.write_var_i32(x);
    [a, b.to_vec(), vec![0; c.size()], d.into_output()]
}
/// (value, bytes consumed) from each of the three sources
fn dec_all_u(b: &[u8]) -> [Option<(u32, usize)>; 3] {
    let mut s = SliceInput::new(b);
    let a = s.read_var_u32().ok().map(|v| (v, s.pos));
    let mut o = OwnedInput::new(b.to_vec());
    let bb = o.read_var_u32().ok().map(|v| {
        let mut left = 0;
        while o.read_u8().is_ok() {
            left += 1;
        }
        (v, b.len() - left)
    });
    let mut c = DeserializationContext::new(b);
    let cc = c.read_var_u32().ok().map(|v| {
        let mut left = 0;
        while c.read_u8().is_ok() {
            left += 1;
        }
        (v, b.len() - left)
    });
    [a, bb, cc]
}
fn dec_all_i(b: &[u8]) -> [Option<(i32, usize)>; 3] {
    let mut s = SliceInput::new(b);
    let a = s.read_var_i32().ok().map(|v| (v, s.pos));
    let mut o = OwnedInput::new(b.to_vec());
    let bb = o.read_var_i32().ok().map(|v| {
        let mut left = 0;
        while o.read_u8().is_ok() {
            left += 1;
        }
        (v, b.len() - left)
    });
    let mut c = DeserializationContext::new(b);
    let cc = c.read_var_i32().ok().map(|v| {
        let mut left = 0;
        while c.read_u8().is_ok() {
            left += 1;
        }
        (v, b.len() - left)
    });
    [a, bb, cc]
}

/// (bytes before, bytes after) a var-int in a buffer; replaced by the specification's set when the vectors arrive
static CONTEXTS: std::sync::RwLock<Vec<(Vec<u8>, Vec<u8>)>> = std::sync::RwLock::new(Vec::new());
fn contexts() -> Vec<(Vec<u8>, Vec<u8>)> {
    let c = CONTEXTS.read().unwrap();
    if c.is_empty() {
        vec![(vec![], vec![0x80]), (vec![], vec![0xFF; 8]), (vec![0xFF], vec![0xFF; 8]), (vec![], vec![0x7F; 8])]
    } else {
        c.clone()
    }
}
/// read a var-int placed between `pre` and `suf` from each source: (value, bytes consumed in total)
fn in_context_u(pre: &[u8], enc: &[u8], suf: &[u8]) -> [Option<(u32, usize)>; 3] {
    let mut b = pre.to_vec();
    b.extend_from_slice(enc);
    b.extend_from_slice(suf);
    let mut s = SliceInput::new(&b);
    let a = s.read_bytes(pre.len()).ok().map(|_| ()).and_then(|_| s.read_var_u32().ok()).map(|v| (v, s.pos));
    let mut o = OwnedInput::new(b.clone());
    let bb = o.read_bytes(pre.len()).ok().map(|_| ()).and_then(|_| o.read_var_u32().ok()).map(|v| {
        let mut left = 0;
        while o.read_u8().is_ok() {
            left += 1;
        }
        (v, b.len() - left)
    });
    let mut c = DeserializationContext::new(&b);
    let cc = c.read_bytes(pre.len()).ok().map(|_| ()).and_then(|_| c.read_var_u32().ok()).map(|v| {
        let mut left = 0;
        while c.read_u8().is_ok() {
            left += 1;
        }
        (v, b.len() - left)
    });
    [a, bb, cc]
}
fn in_context_i(pre: &[u8], enc: &[u8], suf: &[u8]) -> [Option<(i32, usize)>; 3] {
    let mut b = pre.to_vec();
    b.extend_from_slice(enc);
    b.extend_from_slice(suf);
    let mut s = SliceInput::new(&b);
    let a = s.read_bytes(pre.len()).ok().map(|_| ()).and_then(|_| s.read_var_i32().ok()).map(|v| (v, s.pos));
    let mut o = OwnedInput::new(b.clone());
    let bb = o.read_bytes(pre.len()).ok().map(|_| ()).and_then(|_| o.read_var_i32().ok()).map(|v| {
        let mut left = 0;
        while o.read_u8().is_ok() {
            left += 1;
        }
        (v, b.len() - left)
    });
    let mut c = DeserializationContext::new(&b);
    let cc = c.read_bytes(pre.len()).ok().map(|_| ()).and_then(|_| c.read_var_i32().ok()).map(|v| {
        let mut left = 0;
        while c.read_u8().is_ok() {
            left += 1;
        }
        (v, b.len() - left)
    });
    [a, bb, cc]
}

fn check_u(x: u32, want: &[u8], r: &mut Report, what: &str) -> bool {
    let res = guarded(|| {
        let e = enc_all_u(x);
        let mut ok = e[0] == want && e[1] == want && e[2].len() == want.len() && e[3] == want && spare_ok_u(x, want);
        for d in dec_all_u(want) {
            ok &= d == Some((x, want.len()));
        }
        // in any context: exactly the encoding is consumed, the neighbours do not leak into the value
        for (pre, suf) in contexts() {
            for d in in_context_u(&pre, want, &suf) {
                ok &= d == Some((x, pre.len() + want.len()));
            }
        }
        (ok, e)
    });
    match res {
        Ok((true, _)) => true,
        Ok((false, e)) => {
            r.finding(what, &["C11"], json!({"u32": x, "spec": want, "impl": e[0], "decoded": format!("{:?}", dec_all_u(want))}));
            false
        }
        Err(p) => {
            r.finding(what, &["C11"], json!({"u32": x, "panic": p}));
            false
        }
    }
}
fn check_i(x: i32, want: &[u8], r: &mut Report, what: &str) -> bool {
    let res = guarded(|| {
        let e = enc_all_i(x);
        let mut ok = e[0] == want && e[1] == want && e[2].len() == want.len() && e[3] == want && spare_ok_i(x, want);
        for d in dec_all_i(want) {
            ok &= d == Some((x, want.len()));
        }
        for (pre, suf) in contexts() {
            for d in in_context_i(&pre, want, &suf) {
                ok &= d == Some((x, pre.len() + want.len()));
            }
        }
        (ok, e)
    });
    match res {
        Ok((true, _)) => true,
        Ok((false, e)) => {
            r.finding(what, &["C11"], json!({"i32": x, "spec": want, "impl": e[0], "decoded": format!("{:?}", dec_all_i(want))}));
            false
        }
        Err(p) => {
            r.finding(what, &["C11"], json!({"i32": x, "panic": p}));
            false
        }
    }
}

/// {"kind":"varint","unsigned":[[hi,lo,[bytes]],..],"signed":[[n,[bytes]],..]}: TLC vectors
pub fn varint_case(case: &Value, _d: Dispatch, r: &mut Report) {
    if let Some(cs) = case.get("contexts").and_then(|c| c.as_array()) {
        *CONTEXTS.write().unwrap() = cs.iter().map(|c| (bytes_of(&c[0]), bytes_of(&c[1]))).collect();
    }
    for v in case["unsigned"].as_array().unwrap() {
        let x = (v[0].as_u64().unwrap() * P28 + v[1].as_u64().unwrap()) as u32;
        let want = bytes_of(&v[2]);
        r.count("vector_u");
        // the oracle of the sweep must reproduce the TLC vector
        let mut buf = [0u8; 5];
        let w = spec_enc_u(x as u64, &mut buf);
        if buf[..w] != want[..] {
            r.finding("transliteration", &["C11"], json!({"u32": x, "tlc": want, "transliteration": buf[..w]}));
        }
        check_u(x, &want, r, "vector_u");
    }
    for v in case["signed"].as_array().unwrap() {
        let x = v[0].as_i64().unwrap() as i32;
        let want = bytes_of(&v[1]);
        r.count("vector_i");
        let mut buf = [0u8; 5];
        let w = spec_enc_u(spec_zigzag(x as i64), &mut buf);
        if buf[..w] != want[..] {
            r.finding("transliteration", &["C11"], json!({"i32": x, "tlc": want, "transliteration": buf[..w]}));
        }
        check_i(x, &want, r, "vector_i");
    }
}

/// {"kind":"varsweep","stride":s,"phase":p,"threads":t}: all u32 and all i32 congruent to p mod s
/// against the transliterated specification; fast path on Vec<u8> + SliceInput, every 4099th value on all pairs.
pub fn varsweep_case(case: &Value, _d: Dispatch, r: &mut Report) {
    let stride = case["stride"].as_u64().unwrap().max(1);
    let phase = case["phase"].as_u64().unwrap() % stride;
    let threads = case["threads"].as_u64().unwrap_or(8).max(1);
    let total = 1u64 << 32;
    let handles: Vec<_> = (0..threads)
        .map(|t| {
            std::thread::spawn(move || {
                let mut bad_u: Vec<u32> = Vec::new();
                let mut bad_i: Vec<i32> = Vec::new();
                let mut n = 0u64;
                let lo = total / threads * t;
                let hi = if t + 1 == threads { total } else { total / threads * (t + 1) };
                let mut x = lo + (stride + phase - lo % stride) % stride;
                let mut buf = [0u8; 5];
                let mut out: Vec<u8> = Vec::with_capacity(16);
                while x < hi {
                    let u = x as u32;
                    let w = spec_enc_u(u as u64, &mut buf);
                    out.clear();
                    out.write_var_u32(u);
                    let mut s = SliceInput::new(&out);
                    let mut ok = out[..] == buf[..w] && s.read_var_u32().ok() == Some(u) && s.pos == w;
                    out.extend_from_slice(&[0xFF; 8]);       // the same var-int followed by other data
                    let mut s = SliceInput::new(&out);
                    ok &= s.read_var_u32().ok() == Some(u) && s.pos == w;
                    if !ok {
                        if bad_u.len() < 4 {
                            bad_u.push(u);
                        }
                    }
                    let i = u as i32;
                    let w = spec_enc_u(spec_zigzag(i as i64), &mut buf);
                    out.clear();
                    out.write_var_i32(i);
                    let mut s = SliceInput::new(&out);
                    let mut ok = out[..] == buf[..w] && s.read_var_i32().ok() == Some(i) && s.pos == w;
                    out.extend_from_slice(&[0xFF; 8]);
                    let mut s = SliceInput::new(&out);
                    ok &= s.read_var_i32().ok() == Some(i) && s.pos == w;
                    if !ok {
                        if bad_i.len() < 4 {
                            bad_i.push(i);
                        }
                    }
                    n += 2;
                    x += stride;
                }
                (n, bad_u, bad_i)
            })
        })
        .collect();
    for h in handles {
        match h.join() {
            Ok((n, bad_u, bad_i)) => {
                *r.counts.entry("sweep_values".into()).or_insert(0) += n;
                for u in bad_u {
                    let mut buf = [0u8; 5];
                    let w = spec_enc_u(u as u64, &mut buf);
                    check_u(u, &buf[..w].to_vec(), r, "sweep_u");
                }
                for i in bad_i {
                    let mut buf = [0u8; 5];
                    let w = spec_enc_u(spec_zigzag(i as i64), &mut buf);
                    check_i(i, &buf[..w].to_vec(), r, "sweep_i");
                }
            }
            Err(_) => r.finding("sweep_panic", &["C11"], json!({"what": "a sweep thread panicked"})),
        }
    }
    // all sink/source pairs on a sub-lattice
    let mut x = phase % 4099;
    let mut buf = [0u8; 5];
    while x < total {
        let u = x as u32;
        let w = spec_enc_u(u as u64, &mut buf);
        r.count("sweep_all_pairs");
        check_u(u, &buf[..w].to_vec(), r, "sweep_u");
        let i = u as i32;
        let w = spec_enc_u(spec_zigzag(i as i64), &mut buf);
        check_i(i, &buf[..w].to_vec(), r, "sweep_i");
        x += 4099;
    }
}
