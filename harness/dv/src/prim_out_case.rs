//! C15 (output side): scripts of primitive writes on every sink, directly and through a
//! SerializationContext; the bytes are then read back with the matching readers of every source.
//!
//! {"kind":"primout","scripts":[{"ops":[["fixed","u16",[1,2]],["varu",hi,lo],["vari",n],["bytes",[..]]],"out":[..]},..]}
use crate::ops::{guarded, RecordingOutput};
use crate::runner::{bytes_of, Dispatch, Report};
use bytes::BytesMut;
use desert_core::{BinaryInput, BinaryOutput, DeserializationContext, OwnedInput, SerializationContext, SizeCalculator, SliceInput};
use serde_json::{json, Value};

fn arr<const N: usize>(p: &[u8]) -> [u8; N] {
    p.try_into().expect("pattern width")
}

fn write_op<O: BinaryOutput>(o: &mut O, op: &Value) {
    match op[0].as_str().unwrap() {
        "fixed" => {
            let p = bytes_of(&op[2]);
            match op[1].as_str().unwrap() {
                "u8" => o.write_u8(p[0]),
                "i8" => o.write_i8(p[0] as i8),
                "u16" => o.write_u16(u16::from_be_bytes(arr(&p))),
                "i16" => o.write_i16(i16::from_be_bytes(arr(&p))),
                "u32" => o.write_u32(u32::from_be_bytes(arr(&p))),
                "i32" => o.write_i32(i32::from_be_bytes(arr(&p))),
                "f32" => o.write_f32(f32::from_bits(u32::from_be_bytes(arr(&p)))),
                "u64" => o.write_u64(u64::from_be_bytes(arr(&p))),
                "i64" => o.write_i64(i64::from_be_bytes(arr(&p))),
                "f64" => o.write_f64(f64::from_bits(u64::from_be_bytes(arr(&p)))),
                "u128" => o.write_u128(u128::from_be_bytes(arr(&p))),
                "i128" => o.write_i128(i128::from_be_bytes(arr(&p))),
                t => panic!("fixed type {t}"),
            }
        }
        "varu" => o.write_var_u32(((op[1].as_u64().unwrap() as u32) << 28) | op[2].as_u64().unwrap() as u32),
        "vari" => o.write_var_i32(op[1].as_i64().unwrap() as i32),
        "bytes" => o.write_bytes(&bytes_of(&op[1])),
        k => panic!("op {k}"),
    }
}

/// what the matching reader returns, in the shape of the op (None: the read failed)
fn read_op<I: BinaryInput>(i: &mut I, op: &Value) -> Option<Value> {
    Some(match op[0].as_str().unwrap() {
        "fixed" => {
            let b: Vec<u8> = match op[1].as_str().unwrap() {
                "u8" => vec![i.read_u8().ok()?],
                "i8" => vec![i.read_i8().ok()? as u8],
                "u16" => i.read_u16().ok()?.to_be_bytes().to_vec(),
                "i16" => i.read_i16().ok()?.to_be_bytes().to_vec(),
                "u32" => i.read_u32().ok()?.to_be_bytes().to_vec(),
                "i32" => i.read_i32().ok()?.to_be_bytes().to_vec(),
                "f32" => i.read_f32().ok()?.to_bits().to_be_bytes().to_vec(),
                "u64" => i.read_u64().ok()?.to_be_bytes().to_vec(),
                "i64" => i.read_i64().ok()?.to_be_bytes().to_vec(),
                "f64" => i.read_f64().ok()?.to_bits().to_be_bytes().to_vec(),
                "u128" => i.read_u128().ok()?.to_be_bytes().to_vec(),
                "i128" => i.read_i128().ok()?.to_be_bytes().to_vec(),
                t => panic!("fixed type {t}"),
            };
            json!(["fixed", op[1], b])
        }
        "varu" => {
            let x = i.read_var_u32().ok()?;
            json!(["varu", x >> 28, x & 0x0fff_ffff])
        }
        "vari" => json!(["vari", i.read_var_i32().ok()?]),
        "bytes" => json!(["bytes", i.read_bytes(op[1].as_array().unwrap().len()).ok()?.to_vec()]),
        k => panic!("op {k}"),
    })
}

fn read_all<I: BinaryInput>(mut i: I, ops: &[Value]) -> (Vec<Option<Value>>, usize) {
    let got: Vec<Option<Value>> = ops.iter().map(|op| read_op(&mut i, op)).collect();
    let mut left = 0;
    while i.read_u8().is_ok() {
        left += 1;
    }
    (got, left)
}

pub const OUT_SINKS: [&str; 14] = ["Vec<u8>", "BytesMut", "RecordingOutput", "SizeCalculator", "ctx(Vec<u8>)", "ctx(BytesMut)", "ctx(RecordingOutput)", "ctx(SizeCalculator)",
    "BytesMut(spare 1)", "BytesMut(spare 2)", "BytesMut(spare 3)", "BytesMut(spare 4)", "ctx(BytesMut(spare 2))", "Vec<u8>(spare 1)"];

/// a BytesMut that holds 64 - spare bytes already and has exactly `spare` bytes of capacity left: the allocation
/// state of the sink must not matter
fn nearly_full(spare: usize) -> BytesMut {
    let mut b = BytesMut::with_capacity(64);
    b.extend_from_slice(&vec![0xEE; b.capacity() - spare]);
    b
}

/// bytes held by each sink after the script (SizeCalculator: that many zero bytes)
fn write_all(ops: &[Value]) -> Vec<Vec<u8>> {
    let mut a = Vec::<u8>::new();
    let mut b = BytesMut::new();
    let mut c = RecordingOutput::default();
    let mut d = SizeCalculator::new();
    let mut e = SerializationContext::new(Vec::<u8>::new());
    let mut f = SerializationContext::new(BytesMut::new());
    let mut g = SerializationContext::new(RecordingOutput::default());
    let mut h = SerializationContext::new(SizeCalculator::new());
    let mut spare: Vec<BytesMut> = (1..=4).map(nearly_full).collect();
    let pre: Vec<usize> = spare.iter().map(|b| b.len()).collect();
    let mut cs = SerializationContext::new(nearly_full(2));
    let mut vs: Vec<u8> = Vec::with_capacity(16);
    vs.extend_from_slice(&vec![0xEE; vs.capacity() - 1]);
    let vpre = vs.len();
    for op in ops {
        for b in spare.iter_mut() {
            write_op(b, op);
        }
        write_op(&mut cs, op);
        write_op(&mut vs, op);
        write_op(&mut a, op);
        write_op(&mut b, op);
        write_op(&mut c, op);
        write_op(&mut d, op);
        write_op(&mut e, op);
        write_op(&mut f, op);
        write_op(&mut g, op);
        write_op(&mut h, op);
    }
    let mut out = vec![a, b.to_vec(), c.data, vec![0; d.size()], e.into_output(), f.into_output().to_vec(), g.into_output().data, vec![0; h.into_output().size()]];
    for (b, p) in spare.iter().zip(pre.iter()) {
        out.push(b[*p..].to_vec());
    }
    out.push(cs.into_output()[62..].to_vec());
    out.push(vs[vpre..].to_vec());
    out
}

pub fn prim_out_case(case: &Value, _dispatch: Dispatch, r: &mut Report) {
    for s in case["scripts"].as_array().unwrap() {
        let ops = s["ops"].as_array().unwrap();
        let want = bytes_of(&s["out"]);
        r.count("primout_scripts");
        match guarded(|| write_all(ops)) {
            Err(p) => r.finding("primout_panic", &["C15", "C17"], json!({"ops": ops, "panic": p})),
            Ok(outs) => {
                for (i, o) in outs.iter().enumerate() {
                    r.count("primout_sink");
                    let size_only = OUT_SINKS[i].contains("SizeCalculator");
                    let ok = if size_only { o.len() == want.len() } else { *o == want };
                    if !ok {
                        r.finding("primout_sink", &["C15"], json!({"ops": ops, "sink": OUT_SINKS[i], "spec": want,
                            "impl": if size_only { json!({"size": o.len()}) } else { json!(o) }}));
                    }
                }
            }
        }
        // duality: the matching readers of every source give the arguments back and stop at the end
        let expect: Vec<Option<Value>> = ops.iter().map(|o| Some(o.clone())).collect();
        let reads = guarded(|| {
            vec![
                ("SliceInput", read_all(SliceInput::new(&want), ops)),
                ("OwnedInput", read_all(OwnedInput::new(want.clone()), ops)),
                ("DeserializationContext", read_all(DeserializationContext::new(&want), ops)),
            ]
        });
        match reads {
            Err(p) => r.finding("primout_read_panic", &["C15", "C05"], json!({"ops": ops, "bytes": want, "panic": p})),
            Ok(rs) => {
                for (name, (got, left)) in rs {
                    r.count("primout_readback");
                    if got != expect || left != 0 {
                        r.finding("primout_readback", &["C15"], json!({"ops": ops, "bytes": want, "source": name, "got": got, "left": left}));
                    }
                }
            }
        }
    }
}
