//! A graph codec on top of the library's reference tracking (C10), and its replay.
//!
//! Node body: label (String), successor count (u8), then per successor
//! `store_ref_or_object(target)` followed by the target's body if it is new.
//! Identity of a node = address of its RefCell.  Decoded nodes are registered from a
//! boxed arena so that the reference stored in the table stays valid for the whole
//! decode (the table keeps raw pointers; DESIGN 7 D13).
use crate::ops::{errclass, guarded, Outcome};
use crate::runner::{bytes_of, Dispatch, Report};
use desert_core::{
    BinaryDeserializer, BinaryInput, BinaryOutput, BinarySerializer, DeserializationContext,
    SerializationContext,
};
use serde_json::{json, Value};
use std::cell::RefCell;
use std::collections::HashMap;
use std::rc::Rc;

pub struct Node {
    pub label: String,
    pub succ: Vec<NodeRef>,
}
#[derive(Clone)]
pub struct NodeRef(pub Rc<RefCell<Node>>);
pub struct Root(pub NodeRef);

thread_local! {
    static ARENA: RefCell<Vec<Box<NodeRef>>> = RefCell::new(Vec::new());
    static BODIES: RefCell<usize> = RefCell::new(0);
}

fn write_body<O: BinaryOutput>(n: &NodeRef, ctx: &mut SerializationContext<O>) -> desert_core::Result<()> {
    BODIES.with(|b| *b.borrow_mut() += 1);
    let node = n.0.borrow();
    node.label.serialize(ctx)?;
    ctx.write_u8(node.succ.len() as u8);
    for t in &node.succ {
        if ctx.store_ref_or_object(&*t.0)? {
            write_body(t, ctx)?;
        }
    }
    Ok(())
}
impl BinarySerializer for Root {
    fn serialize<O: BinaryOutput>(&self, ctx: &mut SerializationContext<O>) -> desert_core::Result<()> {
        if ctx.store_ref_or_object(&*(self.0).0)? {
            write_body(&self.0, ctx)?;
        }
        Ok(())
    }
}
fn read_ref(ctx: &mut DeserializationContext<'_>) -> desert_core::Result<NodeRef> {
    let known = ctx.try_read_ref()?.map(|any| any.downcast_ref::<NodeRef>().expect("a node").clone());
    match known {
        Some(n) => Ok(n),
        None => read_body(ctx),
    }
}
fn read_body(ctx: &mut DeserializationContext<'_>) -> desert_core::Result<NodeRef> {
    let label = String::deserialize(ctx)?;
    let node = NodeRef(Rc::new(RefCell::new(Node { label, succ: Vec::new() })));
    ARENA.with(|a| {
        let mut a = a.borrow_mut();
        a.push(Box::new(node.clone()));
        let stable: &NodeRef = a.last().unwrap();
        ctx.state_mut().store_ref(stable);
    });
    let n = ctx.read_u8()?;
    for _ in 0..n {
        let t = read_ref(ctx)?;
        node.0.borrow_mut().succ.push(t);
    }
    Ok(node)
}
impl BinaryDeserializer for Root {
    fn deserialize(ctx: &mut DeserializationContext<'_>) -> desert_core::Result<Self> {
        Ok(Root(read_ref(ctx)?))
    }
}

/// model graph {"n", "label": [[bytes]..], "succ": [[ids]..]} -> object graph rooted at node 1
pub fn build(g: &Value) -> Root {
    let n = g["n"].as_u64().unwrap() as usize;
    let nodes: Vec<NodeRef> = (0..n)
        .map(|i| {
            NodeRef(Rc::new(RefCell::new(Node {
                label: String::from_utf8(bytes_of(&g["label"][i])).unwrap(),
                succ: Vec::new(),
            })))
        })
        .collect();
    for i in 0..n {
        let succ: Vec<NodeRef> = g["succ"][i].as_array().unwrap().iter().map(|t| nodes[t.as_u64().unwrap() as usize - 1].clone()).collect();
        nodes[i].0.borrow_mut().succ = succ;
    }
    Root(nodes[0].clone())
}

/// the nodes in pre-order of first encounter (by pointer identity)
pub fn preorder(root: &Root) -> Vec<NodeRef> {
    let mut seen: Vec<*const RefCell<Node>> = Vec::new();
    let mut order: Vec<NodeRef> = Vec::new();
    let mut stack: Vec<NodeRef> = vec![root.0.clone()];
    while let Some(x) = stack.pop() {
        let p = Rc::as_ptr(&x.0);
        if seen.contains(&p) {
            continue;
        }
        seen.push(p);
        order.push(x.clone());
        for t in x.0.borrow().succ.iter().rev() {
            stack.push(t.clone());
        }
    }
    order
}

lazy_static::lazy_static! {
    static ref CROSS_METADATA: desert_core::adt::AdtMetadata = desert_core::adt::AdtMetadata::new(vec![
        desert_core::Evolution::InitialVersion,
        desert_core::Evolution::FieldAdded { name: "b".to_string() },
    ]);
}
/// a record with a header whose second field (chunk 1) shares an object with the first (chunk 0)
pub struct Cross {
    pub a: Root,
    pub b: NodeRef,
}
struct RefOnly<'a>(&'a NodeRef);
impl<'a> BinarySerializer for RefOnly<'a> {
    fn serialize<O: BinaryOutput>(&self, ctx: &mut SerializationContext<O>) -> desert_core::Result<()> {
        if ctx.store_ref_or_object(&*(self.0).0)? {
            write_body(self.0, ctx)?;
        }
        Ok(())
    }
}
struct ReadRef(NodeRef);
impl BinaryDeserializer for ReadRef {
    fn deserialize(ctx: &mut DeserializationContext<'_>) -> desert_core::Result<Self> {
        Ok(ReadRef(read_ref(ctx)?))
    }
}
impl BinarySerializer for Cross {
    fn serialize<O: BinaryOutput>(&self, ctx: &mut SerializationContext<O>) -> desert_core::Result<()> {
        let mut s = desert_core::adt::AdtSerializer::new(&CROSS_METADATA, ctx);
        s.write_field("a", &self.a)?;
        s.write_field("b", &RefOnly(&self.b))?;
        s.finish()
    }
}
impl BinaryDeserializer for Cross {
    fn deserialize(ctx: &mut DeserializationContext<'_>) -> desert_core::Result<Self> {
        let stored = ctx.read_u8()?;
        let mut d = if stored == 0 {
            desert_core::adt::AdtDeserializer::new_v0(&CROSS_METADATA, ctx)?
        } else {
            desert_core::adt::AdtDeserializer::new(&CROSS_METADATA, ctx, stored)?
        };
        let a: Root = d.read_field("a", None)?;
        let b: ReadRef = d.read_field("b", None)?;
        Ok(Cross { a, b: b.0 })
    }
}

/// canonical form of an object graph: nodes numbered in pre-order of first encounter, by pointer identity
pub fn canon(root: &Root) -> Value {
    let mut ids: HashMap<*const RefCell<Node>, usize> = HashMap::new();
    let mut order: Vec<NodeRef> = Vec::new();
    let mut stack: Vec<NodeRef> = vec![root.0.clone()];
    while let Some(x) = stack.pop() {
        let p = Rc::as_ptr(&x.0);
        if ids.contains_key(&p) {
            continue;
        }
        ids.insert(p, order.len() + 1);
        order.push(x.clone());
        for t in x.0.borrow().succ.iter().rev() {
            stack.push(t.clone());
        }
    }
    let label: Vec<Value> = order.iter().map(|x| json!(x.0.borrow().label.as_bytes())).collect();
    let succ: Vec<Value> = order
        .iter()
        .map(|x| json!(x.0.borrow().succ.iter().map(|t| ids[&Rc::as_ptr(&t.0)]).collect::<Vec<_>>()))
        .collect();
    json!({"n": order.len(), "label": label, "succ": succ})
}

fn decode(b: &[u8]) -> Outcome<(Value, usize)> {
    ARENA.with(|a| a.borrow_mut().clear());
    let r = guarded(|| {
        let mut ctx = DeserializationContext::new(b);
        let root = Root::deserialize(&mut ctx)?;
        let mut left = 0;
        while ctx.read_u8().is_ok() {
            left += 1;
        }
        Ok((canon(&root), left))
    });
    match r {
        Ok(Ok(x)) => Outcome::Ok(x),
        Ok(Err(e)) => {
            let (c, d) = errclass(&e);
            Outcome::Err(c, d)
        }
        Err(p) => Outcome::Panic(p),
    }
}

/// {"kind":"graph","g":{..},"b":[..],"canon":{..},"bodies":k,"tampers":[[pos,val,verdict],..]}
pub fn graph_case(case: &Value, _dispatch: Dispatch, r: &mut Report) {
    let g = &case["g"];
    let b = bytes_of(&case["b"]);
    // implementation trace of the object table: one writer run, one reader run on its bytes (Trace_Refs.tla)
    if let Some(mut t) = crate::trace::TraceFile::open(case) {
        let root = build(g);
        t.line(json!({"ev": "begin", "side": "w"}));
        t.start();
        let enc = guarded(|| desert_core::serialize_to_byte_vec(&root));
        let evs = t.stop();
        crate::trace::ref_events(&mut t, &evs);
        t.line(json!({"ev": "end", "side": "w", "ok": matches!(enc, Ok(Ok(_))) as i32, "n": case["canon"]["n"]}));
        if let Ok(Ok(real)) = &enc {
            t.line(json!({"ev": "begin", "side": "r"}));
            t.start();
            let dec = decode(real);
            let evs = t.stop();
            crate::trace::ref_events(&mut t, &evs);
            t.line(json!({"ev": "end", "side": "r", "ok": matches!(dec, Outcome::Ok(_)) as i32, "n": case["canon"]["n"]}));
        }
        t.flush();
        r.count("traced_graphs");
    }
    // encode: terminates on cycles, bytes as specified, each reachable node written once
    r.count("graph_enc");
    BODIES.with(|x| *x.borrow_mut() = 0);
    let root = build(g);
    let enc = guarded(|| desert_core::serialize_to_byte_vec(&root));
    let bodies = BODIES.with(|x| *x.borrow());
    match &enc {
        Ok(Ok(real)) if *real == b && bodies == case["canon"]["n"].as_u64().unwrap() as usize => {}
        other => r.finding(
            "graph_enc",
            &["C10"],
            json!({"g": g, "spec": b, "bodies_written": bodies,
                   "impl": match other { Ok(Ok(x)) => json!(x), Ok(Err(e)) => json!(e.to_string()), Err(p) => json!({"panic": p}) }}),
        ),
    }
    // decode: isomorphic graph, shared nodes shared again (canonical numbering is by pointer identity)
    r.count("graph_dec");
    let got = decode(&b);
    if !matches!(&got, Outcome::Ok((c, 0)) if *c == case["canon"]) {
        r.finding(
            "graph_dec",
            &["C10"],
            json!({"g": g, "bytes": b, "want": case["canon"], "got": crate::ops::outcome_json(&got, |x| json!({"g": x.0, "left": x.1}))}),
        );
    }
    // sharing across the chunks of a record with a header: field `a` (chunk 0) is the graph, field `b` (chunk 1,
    // added later) refers to the k-th object of it
    for x in case.get("cross").and_then(|c| c.as_array()).map(|a| a.as_slice()).unwrap_or(&[]) {
        r.count("graph_cross");
        let k = x[0].as_u64().unwrap() as usize;
        let want = bytes_of(&x[1]);
        let root = build(g);
        let order = preorder(&root);
        let cross = Cross { a: Root(root.0.clone()), b: order[k - 1].clone() };
        let res = guarded(|| {
            let bytes = desert_core::serialize_to_byte_vec(&cross)?;
            ARENA.with(|a| a.borrow_mut().clear());
            let back: Cross = desert_core::deserialize(&want)?;
            let border = preorder(&back.a);
            Ok::<_, desert_core::Error>((bytes, canon(&back.a), Rc::ptr_eq(&border[k - 1].0, &back.b.0)))
        });
        match res {
            Ok(Ok((bytes, c, same))) if bytes == want && c == case["canon"] && same => {}
            other => r.finding("graph_cross", &["C10"], json!({"g": g, "k": k, "spec": want,
                "impl": match other { Ok(Ok((b, _, same))) => json!({"bytes": b, "b_is_the_kth_object": same}), Ok(Err(e)) => json!(e.to_string()), Err(p) => json!({"panic": p}) }})),
        }
    }
    // streams citing object numbers: the reference decoder's verdict
    let mut streams: Vec<(Vec<u8>, &Value)> = Vec::new();
    for t in case["tampers"].as_array().unwrap() {
        let mut bt = b.clone();
        bt[t[0].as_u64().unwrap() as usize - 1] = t[1].as_u64().unwrap() as u8;
        streams.push((bt, &t[2]));
    }
    // long chains: the last item (a back-reference) replaced by another object number
    for t in case.get("tails").and_then(|x| x.as_array()).map(|a| a.as_slice()).unwrap_or(&[]) {
        let mut bt = b[..t[0].as_u64().unwrap() as usize].to_vec();
        bt.extend(bytes_of(&t[1]));
        streams.push((bt, &t[2]));
    }
    for (bt, verdict) in streams {
        r.count("graph_tamper");
        let v = verdict.as_array().unwrap();
        let got = decode(&bt);
        let ok = match (&got, v[0].as_str().unwrap()) {
            (Outcome::Ok((c, left)), "ok") => *c == v[1] && bt.len() - left == v[2].as_u64().unwrap() as usize,
            (Outcome::Err(c, _), "err") => v[1] != "BadRefId" || *c == "BadRefId",
            _ => false,
        };
        if !ok {
            let mut p = vec!["C10"];
            if got.is_panic() {
                p.push("C05");
            }
            r.finding(
                "graph_tamper",
                &p,
                json!({"bytes": bt, "ref": v, "got": crate::ops::outcome_json(&got, |x| json!({"g": x.0, "left": x.1}))}),
            );
        }
    }
}

// ---------------------------------------------------------------------------------------------
// identity of tracked objects: a record, its first member (same address, another type), an unrelated object
pub use site2::{Dept, Emp};

/// {"kind":"offers","seqs":[[["D","H","D"],[0,0,1]],..]}: every sequence of offers, bytes as the table of the specification writes them.
/// "S" / "T" in a sequence: the deduplicated strings "s" / "t" (the string table is another table: MC_Refs!MixBytes).
pub fn offers_case(case: &Value, _dispatch: Dispatch, r: &mut Report) {
    use desert_core::DeduplicatedString;
    let d = Dept { head: Emp { id: 1 }, size: 2 };
    let e = Box::new(Emp { id: 3 });
    assert_eq!(&d as *const Dept as usize, &d.head as *const Emp as usize, "the first member shares the record's address");
    let props: Vec<&str> = case["props"].as_array().map(|a| a.iter().filter_map(|x| x.as_str()).collect()).unwrap_or_else(|| vec!["C10"]);
    for s in case["seqs"].as_array().unwrap() {
        r.count("offers");
        let want = bytes_of(&s[1]);
        let seq: Vec<&str> = s[0].as_array().unwrap().iter().map(|x| x.as_str().unwrap()).collect();
        // which call site makes the k-th offer: all here, all in the other crate, alternating (both phases)
        for sites in 0..4usize {
        let elsewhere = |k: usize| match sites { 0 => false, 1 => true, 2 => k % 2 == 0, _ => k % 2 == 1 };
        let got = guarded(|| {
            let mut ctx = SerializationContext::new(Vec::<u8>::new());
            let mut news = Vec::new();
            for (k, o) in seq.iter().enumerate() {
                let fresh = match *o {
                    "D" if elsewhere(k) => site2::offer_dept(&mut ctx, &d),
                    "H" if elsewhere(k) => site2::offer_emp(&mut ctx, &d.head),
                    "E" if elsewhere(k) => site2::offer_emp(&mut ctx, &e),
                    "D" => ctx.store_ref_or_object(&d),
                    "H" => ctx.store_ref_or_object(&d.head),
                    "E" => ctx.store_ref_or_object(&*e),
                    "S" => DeduplicatedString("s".to_string()).serialize(&mut ctx).map(|_| false),
                    _ => DeduplicatedString("t".to_string()).serialize(&mut ctx).map(|_| false),
                }?;
                if matches!(*o, "D" | "H" | "E") {
                    news.push(fresh);
                }
            }
            Ok::<_, desert_core::Error>((ctx.into_output(), news))
        });
        match got {
            Ok(Ok((bytes, news))) if bytes == want && (seq.iter().any(|o| matches!(*o, "S" | "T")) || news == want.iter().map(|b| *b == 0).collect::<Vec<bool>>()) => {
                // the reader's side of the same stream: strings come back, objects are new exactly where the writer said so
                let back = guarded(|| {
                    let mut ctx = DeserializationContext::new(&bytes);
                    let mut seen_new = Vec::new();
                    for (k, o) in seq.iter().enumerate() {
                        match *o {
                            "S" | "T" => {
                                let x = DeduplicatedString::deserialize(&mut ctx)?;
                                if x.0 != o.to_lowercase() {
                                    return Ok(Err(format!("string {} read as {:?}", o, x.0)));
                                }
                            }
                            _ => {
                                let known = if elsewhere(k) { site2::next_ref(&mut ctx)? } else { ctx.try_read_ref()?.map(|a| a as *const dyn std::any::Any as *const u8 as usize) };
                                let addr = match *o { "D" => &d as *const Dept as usize, "H" => &d.head as *const Emp as usize, _ => &*e as *const Emp as usize };
                                match known {
                                    None => {
                                        seen_new.push(true);
                                        match *o {
                                            "D" if !elsewhere(k) => site2::register_dept(&mut ctx, &d),
                                            "H" if !elsewhere(k) => site2::register_emp(&mut ctx, &d.head),
                                            "E" if !elsewhere(k) => site2::register_emp(&mut ctx, &e),
                                            "D" => { ctx.state_mut().store_ref(&d); }
                                            "H" => { ctx.state_mut().store_ref(&d.head); }
                                            _ => { ctx.state_mut().store_ref(&*e); }
                                        };
                                    }
                                    Some(a) if a == addr => seen_new.push(false),
                                    Some(_) => return Ok(Err(format!("reference {k} names another object"))),
                                }
                            }
                        }
                    }
                    Ok::<_, desert_core::Error>(Ok(seen_new))
                });
                match back {
                    Ok(Ok(Ok(seen))) if seen == news => {}
                    other => r.finding("offers_read", &props, json!({"writes": seq, "bytes": bytes, "got": format!("{:?}", other.map(|x| x.map_err(|e| e.to_string())))})),
                }
            }
            other => r.finding("offers", &props, json!({"offers": seq, "spec": want, "call_sites": (["all here", "all in another crate", "alternating", "alternating"][sites]),
                "impl": match other { Ok(Ok((b, n))) => json!({"bytes": b, "new": n}), Ok(Err(e)) => json!(e.to_string()), Err(p) => json!({"panic": p}) }})),
        }
        }
    }
}
