//! C15 (input side): scripts of primitive reads on SliceInput, OwnedInput and DeserializationContext.
//!
//! {"kind":"prim","script":["u8","varu",..],"runs":[[bytes,[[res..],used]],..]}
//! res: ["b",d1..] fixed-width / raw bytes, ["u",hi,lo] var_u32, ["i",n] var_i32, ["s"] skip, ["E"] InputEnded
use crate::ops::guarded;
use crate::runner::{bytes_of, Dispatch, Report};
use desert_core::{BinaryInput, DeserializationContext, OwnedInput, SliceInput};
use serde_json::{json, Value};

fn tagged(tag: &str, b: &[u8]) -> Value {
    let mut v = vec![json!(tag)];
    v.extend(b.iter().map(|x| json!(*x)));
    Value::Array(v)
}

fn step<I: BinaryInput>(inp: &mut I, op: &str) -> Value {
    fn e() -> Value {
        json!(["E"])
    }
    match op {
        "u8" => inp.read_u8().map(|x| tagged("b", &[x])).unwrap_or_else(|_| e()),
        "i8" => inp.read_i8().map(|x| tagged("b", &[x as u8])).unwrap_or_else(|_| e()),
        "u16" => inp.read_u16().map(|x| tagged("b", &x.to_be_bytes())).unwrap_or_else(|_| e()),
        "i32" => inp.read_i32().map(|x| tagged("b", &x.to_be_bytes())).unwrap_or_else(|_| e()),
        "u64" => inp.read_u64().map(|x| tagged("b", &x.to_be_bytes())).unwrap_or_else(|_| e()),
        "u128" => inp.read_u128().map(|x| tagged("b", &x.to_be_bytes())).unwrap_or_else(|_| e()),
        "f32" => inp.read_f32().map(|x| tagged("b", &x.to_bits().to_be_bytes())).unwrap_or_else(|_| e()),
        "varu" => inp.read_var_u32().map(|x| json!(["u", x >> 28, x & 0x0fff_ffff])).unwrap_or_else(|_| e()),
        "vari" => inp.read_var_i32().map(|x| json!(["i", x])).unwrap_or_else(|_| e()),
        "b0" | "b1" | "b3" | "bhuge" => {
            let n = match op {
                "b0" => 0,
                "b1" => 1,
                "b3" => 3,
                _ => usize::MAX,
            };
            inp.read_bytes(n).map(|x| tagged("b", x)).unwrap_or_else(|_| e())
        }
        "s0" | "s1" | "s3" | "shuge" => {
            let n = match op {
                "s0" => 0,
                "s1" => 1,
                "s3" => 3,
                _ => usize::MAX,
            };
            inp.skip(n).map(|_| json!(["s"])).unwrap_or_else(|_| e())
        }
        other => panic!("op {other}"),
    }
}
/// run the script, then count the bytes still readable
fn run<I: BinaryInput>(mut inp: I, script: &[&str], len: usize) -> Value {
    let res: Vec<Value> = script.iter().map(|op| step(&mut inp, op)).collect();
    let mut left = 0;
    while inp.read_u8().is_ok() {
        left += 1;
    }
    json!([res, len - left])
}

pub fn prim_case(case: &Value, _d: Dispatch, r: &mut Report) {
    let script: Vec<&str> = case["script"].as_array().unwrap().iter().map(|x| x.as_str().unwrap()).collect();
    for runv in case["runs"].as_array().unwrap() {
        let b = bytes_of(&runv[0]);
        let want = &runv[1];
        r.count("prim");
        crate::runner::progress(&b);
        let got = guarded(|| {
            vec![
                ("SliceInput", run(SliceInput::new(&b), &script, b.len())),
                ("OwnedInput", run(OwnedInput::new(b.clone()), &script, b.len())),
                ("DeserializationContext", run(DeserializationContext::new(&b), &script, b.len())),
            ]
        });
        match got {
            Ok(rs) => {
                for (name, g) in rs {
                    if g != *want {
                        r.finding("prim", &["C15"], json!({"source": name, "script": script, "bytes": b, "spec": want, "impl": g}));
                    }
                }
            }
            Err(p) => r.finding("prim", &["C15", "C05"], json!({"script": script, "bytes": b, "panic": p})),
        }
    }
}
