//! kind = "nested": a value whose codec makes a top-level call of its own (an envelope that carries its
//! payload as pre-serialised bytes).  The inner call is a call like any other (C18: fresh tables, the outer
//! call's tables untouched) and its failure is an error of the outer call, never an unwind (C17).
//!
//! {"kind":"nested","cases":[[char value, ok, err class, [outer bytes]],..]}
use crate::model::ModelType;
use crate::ops::{errclass, guarded};
use crate::runner::{bytes_of, Dispatch, Report};
use bytes::BytesMut;
use desert_core::{
    deserialize, serialize, serialize_to_byte_vec, serialize_to_bytes, BinaryDeserializer, BinaryOutput, BinarySerializer, DeduplicatedString,
    DeserializationContext, SerializationContext, SizeCalculator,
};
use serde_json::{json, Value};

type Inner = (String, char, DeduplicatedString, DeduplicatedString);
#[derive(Debug, PartialEq, Clone)]
pub struct Envelope {
    pub how: u8,
    pub c: char,
}
fn inner_of(c: char) -> Inner {
    ("x".to_string(), c, DeduplicatedString("b".to_string()), DeduplicatedString("b".to_string()))
}
pub const INNER_ENTRIES: [&str; 4] = ["serialize_to_bytes", "serialize_to_byte_vec", "serialize(Vec<u8>)", "serialize(BytesMut)"];
impl BinarySerializer for Envelope {
    fn serialize<O: BinaryOutput>(&self, ctx: &mut SerializationContext<O>) -> desert_core::Result<()> {
        DeduplicatedString("a".to_string()).serialize(ctx)?;
        let v = inner_of(self.c);
        let inner: Vec<u8> = match self.how {
            0 => serialize_to_bytes(&v)?.to_vec(),
            1 => serialize_to_byte_vec(&v)?,
            2 => serialize(&v, Vec::<u8>::new())?,
            _ => serialize(&v, BytesMut::new())?.to_vec(),
        };
        inner.serialize(ctx)?;
        // the outer table still holds exactly "a": a back-reference to id 1
        DeduplicatedString("a".to_string()).serialize(ctx)
    }
}
impl BinaryDeserializer for Envelope {
    fn deserialize(ctx: &mut DeserializationContext<'_>) -> desert_core::Result<Self> {
        let a1 = DeduplicatedString::deserialize(ctx)?;
        let bytes = Vec::<u8>::deserialize(ctx)?;
        let inner: Inner = deserialize(&bytes)?;
        let a2 = DeduplicatedString::deserialize(ctx)?;
        if a1.0 != "a" || a2.0 != "a" || inner.0 != "x" || inner.2 .0 != "b" || inner.3 .0 != "b" {
            return Err(desert_core::Error::DeserializationFailure("envelope content differs".to_string()));
        }
        Ok(Envelope { how: 0, c: inner.1 })
    }
}

pub fn nested_case(case: &Value, _d: Dispatch, r: &mut Report) {
    for c in case["cases"].as_array().unwrap() {
        let ch: char = <char as ModelType>::from_model(&c[0]);
        let want_ok = c[1].as_bool().unwrap();
        let want_err = c[2].as_str().unwrap_or("");
        let want = bytes_of(&c[3]);
        for how in 0..4u8 {
            let env = Envelope { how, c: ch };
            let outers: Vec<(&str, Result<desert_core::Result<Vec<u8>>, String>)> = vec![
                ("serialize_to_bytes", guarded(|| serialize_to_bytes(&env).map(|b| b.to_vec()))),
                ("serialize_to_byte_vec", guarded(|| serialize_to_byte_vec(&env))),
                ("serialize(Vec<u8>)", guarded(|| serialize(&env, Vec::<u8>::new()))),
                ("serialize(BytesMut)", guarded(|| serialize(&env, BytesMut::new()).map(|b| b.to_vec()))),
                ("serialize(SizeCalculator)", guarded(|| serialize(&env, SizeCalculator::new()).map(|s| vec![0u8; s.size()]))),
            ];
            for (outer, got) in outers {
                r.count("nested_enc");
                let ctx = json!({"outer": outer, "inner": INNER_ENTRIES[how as usize], "char": ch as u32});
                match got {
                    Err(p) => r.finding("nested_panic", &["C17", "C18"], json!({"case": ctx, "panic": p})),
                    Ok(Ok(b)) => {
                        let same = if outer.contains("SizeCalculator") { b.len() == want.len() } else { b == want };
                        if !want_ok || !same {
                            r.finding("nested_enc", &["C18", "C17"], json!({"case": ctx, "spec": {"ok": want_ok, "err": want_err, "bytes": want}, "impl": b}));
                        }
                    }
                    Ok(Err(e)) => {
                        let (cls, _) = errclass(&e);
                        if want_ok || cls != want_err {
                            r.finding("nested_enc", &["C17", "C18"], json!({"case": ctx, "spec": {"ok": want_ok, "err": want_err}, "impl_err": e.to_string()}));
                        }
                    }
                }
            }
        }
        if want_ok {
            r.count("nested_dec");
            match guarded(|| deserialize::<Envelope>(&want)) {
                Ok(Ok(e)) if e.c == ch => {}
                other => r.finding("nested_dec", &["C18", "C05"], json!({"char": ch as u32, "bytes": want, "got": format!("{other:?}")})),
            }
        }
    }
}
