//! kind = "deep": values nested d levels deep through recursive declarations, and collections of n
//! smart-pointer elements (MC_Deep.tla).  The value is built here from (family, d) by the rule the
//! specification states, so that no deeply nested JSON is needed.
//!
//! {"kind":"deep","fam":"RecList"|"RecEvo"|"RecTree"|"RecEnum"|"arc"|"rc"|"box","d":n,"b":[..]}
use crate::desert;
use crate::ops::guarded;
use crate::runner::{bytes_of, Dispatch, Report};
use desert_core::{deserialize, serialize, serialize_to_byte_vec, BinaryDeserializer, BinarySerializer, DeserializationContext, SizeCalculator};
use serde_json::{json, Value};
use std::rc::Rc;
use std::sync::Arc;

#[derive(desert_macro::BinaryCodec, PartialEq, Debug, Clone)]
pub struct RecList {
    pub v: u8,
    pub next: Option<Box<RecList>>,
}
#[derive(desert_macro::BinaryCodec, PartialEq, Debug, Clone)]
#[evolution(FieldAdded("label", 0))]
pub struct RecEvo {
    pub v: u8,
    pub next: Option<Box<RecEvo>>,
    pub label: u8,
}
#[derive(desert_macro::BinaryCodec, PartialEq, Debug, Clone)]
#[evolution(FieldAdded("kids", Vec::new()))]
pub struct RecTree {
    pub v: u8,
    pub kids: Vec<RecTree>,
}
#[derive(desert_macro::BinaryCodec, PartialEq, Debug, Clone)]
pub enum RecEnum {
    Leaf(u8),
    Node { l: Box<RecEnum>, r: Box<RecEnum> },
}

// builders: iterative, innermost level first (level 1 is the innermost)
fn list(d: u64) -> RecList {
    let mut cur = RecList { v: 1, next: None };
    for n in 2..=d {
        cur = RecList { v: (n % 256) as u8, next: Some(Box::new(cur)) };
    }
    cur
}
fn evo(d: u64) -> RecEvo {
    let mut cur = RecEvo { v: 1, next: None, label: 7 };
    for n in 2..=d {
        cur = RecEvo { v: (n % 256) as u8, next: Some(Box::new(cur)), label: ((7 * n) % 256) as u8 };
    }
    cur
}
fn tree(d: u64) -> RecTree {
    let mut cur = RecTree { v: 1, kids: vec![] };
    for n in 2..=d {
        cur = RecTree { v: (n % 256) as u8, kids: vec![cur] };
    }
    cur
}
fn renum(d: u64) -> RecEnum {
    let mut cur = RecEnum::Leaf(1);
    for n in 2..=d {
        cur = RecEnum::Node { l: Box::new(RecEnum::Leaf((n % 256) as u8)), r: Box::new(cur) };
    }
    cur
}

fn check<T: BinarySerializer + BinaryDeserializer + PartialEq + std::fmt::Debug>(
    what: &str,
    d: u64,
    v: T,
    b: &[u8],
    all_cuts: bool,
    r: &mut Report,
) {
    let ctx = json!({"family": what, "d": d});
    // encode: the specification's bytes, the exact size
    r.count("deep_enc");
    match guarded(|| (serialize_to_byte_vec(&v), serialize(&v, SizeCalculator::new()).map(|s| s.size()))) {
        Ok((Ok(real), Ok(size))) if real == b && size == b.len() => {}
        Ok((Ok(real), size)) => r.finding(
            "deep_enc",
            &["C04", "C01", "C15"],
            json!({"case": ctx, "spec_len": b.len(), "impl_len": real.len(), "size": size.ok(),
                   "first_difference": real.iter().zip(b.iter()).position(|(x, y)| x != y)}),
        ),
        Ok((Err(e), _)) => r.finding("deep_enc", &["C01", "C17"], json!({"case": ctx, "err": e.to_string()})),
        Err(p) => r.finding("deep_enc", &["C17", "C01"], json!({"case": ctx, "panic": p})),
    }
    // decode: the value, everything consumed
    r.count("deep_dec");
    match guarded(|| deserialize::<T>(b)) {
        Ok(Ok(x)) if x == v => {}
        Ok(Ok(_)) => r.finding("deep_dec", &["C01", "C02"], json!({"case": ctx, "what": "decoded to a different value"})),
        Ok(Err(e)) => r.finding("deep_dec", &["C01", "C02"], json!({"case": ctx, "err": e.to_string()})),
        Err(p) => r.finding("deep_dec", &["C05", "C01", "C02"], json!({"case": ctx, "panic": p})),
    }
    // followed by other data: exactly the value is consumed (records with a header at the top level and built-ins)
    r.count("deep_suffix");
    let mut more = b.to_vec();
    more.extend_from_slice(&[1, 2, 3]);
    let left = guarded(|| {
        let mut c = DeserializationContext::new(&more);
        T::deserialize(&mut c).map(|x| {
            let mut left = 0;
            while desert::BinaryInput::read_u8(&mut c).is_ok() {
                left += 1;
            }
            (x == v, left)
        })
    });
    if !matches!(left, Ok(Ok((true, 3)))) {
        r.finding("deep_suffix", &["C07", "C05"], json!({"case": ctx, "got": format!("{left:?}")}));
    }
    // truncation: every strict prefix (or a spread of them) is rejected without a panic
    let cuts: Vec<usize> = if all_cuts { (0..b.len()).collect() } else { (0..b.len()).step_by(1 + b.len() / 97).chain(b.len().saturating_sub(3)..b.len()).collect() };
    for k in cuts {
        r.count("deep_prefix");
        match guarded(|| deserialize::<T>(&b[..k])) {
            Ok(Err(_)) => {}
            Ok(Ok(_)) => r.finding("deep_prefix", &["C08"], json!({"case": ctx, "cut": k, "what": "a strict prefix was accepted"})),
            Err(p) => r.finding("deep_prefix", &["C05", "C08"], json!({"case": ctx, "cut": k, "panic": p})),
        }
    }
}

pub fn deep_case(case: &Value, _dispatch: Dispatch, r: &mut Report) {
    let fam = case["fam"].as_str().unwrap();
    let d = case["d"].as_u64().unwrap();
    let b = bytes_of(&case["b"]);
    let all = d <= 128;
    match fam {
        "RecList" => check(fam, d, list(d), &b, all, r),
        "RecEvo" => check(fam, d, evo(d), &b, all, r),
        "RecEvoAsList" => {
            // written by the newer definition (a header and an added field at every level), read by version 0
            r.count("deep_cross");
            match guarded(|| (serialize_to_byte_vec(&evo(d)), deserialize::<RecList>(&b))) {
                Ok((Ok(real), Ok(x))) if real == b && x == list(d) => {}
                Ok((enc, dec)) => r.finding("deep_cross", &["C03", "C05"], json!({"family": fam, "d": d, "bytes_equal": enc.map(|x| x == b).ok(),
                    "decoded": dec.map(|x| x == list(d)).map_err(|e| e.to_string())})),
                Err(p) => r.finding("deep_cross", &["C05", "C03"], json!({"family": fam, "d": d, "panic": p})),
            }
        }
        "RecTree" => check(fam, d, tree(d), &b, all, r),
        "RecEnum" => check(fam, d, renum(d), &b, all, r),
        "arc" => check(fam, d, (1..=d as u32).map(Arc::new).collect::<Vec<Arc<u32>>>(), &b, false, r),
        "rc" => check(fam, d, (1..=d as u32).map(Rc::new).collect::<Vec<Rc<u32>>>(), &b, false, r),
        "box" => check(fam, d, (1..=d as u32).map(Box::new).collect::<Vec<Box<u32>>>(), &b, false, r),
        other => panic!("deep family {other}"),
    }
}

// ---------------------------------------------------------------------------------------------
// C18, schedule "all calls at their deepest point at the same time": a leaf codec that parks the
// decoding (or encoding) thread until every participating thread has arrived there.
pub struct Rendezvous {
    pub expected: usize,
    pub arrived: std::sync::atomic::AtomicUsize,
}
pub static GATE: std::sync::RwLock<Option<Arc<Rendezvous>>> = std::sync::RwLock::new(None);
fn park() {
    let g = GATE.read().unwrap().clone();
    if let Some(g) = g {
        use std::sync::atomic::Ordering::SeqCst;
        g.arrived.fetch_add(1, SeqCst);
        let t0 = std::time::Instant::now();
        while g.arrived.load(SeqCst) < g.expected && t0.elapsed().as_secs() < 10 {
            std::thread::yield_now();
        }
    }
}
#[derive(PartialEq, Debug, Clone, Copy)]
pub struct Gate(pub u8);
impl BinarySerializer for Gate {
    fn serialize<O: desert::BinaryOutput>(&self, c: &mut desert::SerializationContext<O>) -> desert::Result<()> {
        desert::BinaryOutput::write_u8(c, self.0);
        if self.0 == 1 {
            park();
        }
        Ok(())
    }
}
impl BinaryDeserializer for Gate {
    fn deserialize(c: &mut DeserializationContext<'_>) -> desert::Result<Self> {
        let f = desert::BinaryInput::read_u8(c)?;
        if f == 1 {
            park();
        }
        Ok(Gate(f))
    }
}
#[derive(desert_macro::BinaryCodec, PartialEq, Debug, Clone)]
#[evolution(FieldAdded("label", 0))]
pub struct GEvo {
    pub v: u8,
    pub gate: Gate,
    pub next: Option<Box<GEvo>>,
    pub label: u8,
}
#[derive(desert_macro::BinaryCodec, PartialEq, Debug, Clone)]
pub enum GEnum {
    Leaf(Gate),
    Node { l: u8, r: Box<GEnum> },
}
fn gevo(d: u64) -> GEvo {
    let mut cur = GEvo { v: 1, gate: Gate(1), next: None, label: 7 };
    for n in 2..=d {
        cur = GEvo { v: (n % 256) as u8, gate: Gate(0), next: Some(Box::new(cur)), label: ((7 * n) % 256) as u8 };
    }
    cur
}
fn genum(d: u64) -> GEnum {
    let mut cur = GEnum::Leaf(Gate(1));
    for n in 2..=d {
        cur = GEnum::Node { l: (n % 256) as u8, r: Box::new(cur) };
    }
    cur
}

/// Every thread encodes and decodes a value nested `depth` levels; all threads wait for each other at the
/// innermost level.  Each call must give what the same call gives alone.  Returns descriptions of deviations.
pub fn parked_calls(threads: usize, depth: u64) -> Vec<Value> {
    fn run<T: BinarySerializer + BinaryDeserializer + PartialEq + std::fmt::Debug + Send + Sync + 'static>(
        name: &'static str,
        v: T,
        threads: usize,
    ) -> Vec<Value> {
        *GATE.write().unwrap() = None;
        let alone = match guarded(|| serialize_to_byte_vec(&v)) {
            Ok(Ok(b)) => b,
            other => return vec![json!({"what": "the call alone failed", "ty": name, "got": format!("{other:?}")})],
        };
        match guarded(|| deserialize::<T>(&alone)) {
            Ok(Ok(x)) if x == v => {}
            other => return vec![json!({"what": "the decode alone failed", "ty": name, "got": format!("{:?}", other.map(|r| r.map(|_| ())))})],
        }
        let v = Arc::new(v);
        let alone = Arc::new(alone);
        let mut bad = Vec::new();
        for phase in ["decode", "encode"] {
            *GATE.write().unwrap() = Some(Arc::new(Rendezvous { expected: threads, arrived: std::sync::atomic::AtomicUsize::new(0) }));
            let hs: Vec<_> = (0..threads)
                .map(|_| {
                    let (v, alone) = (v.clone(), alone.clone());
                    std::thread::Builder::new()
                        .stack_size(16 << 20)
                        .spawn(move || {
                            crate::ops::install_panic_hook();
                            if phase == "decode" {
                                match guarded(|| deserialize::<T>(&alone)) {
                                    Ok(Ok(x)) if x == *v => None,
                                    Ok(Ok(_)) => Some("a different value".to_string()),
                                    Ok(Err(e)) => Some(e.to_string()),
                                    Err(p) => Some(format!("panic: {p}")),
                                }
                            } else {
                                match guarded(|| serialize_to_byte_vec(&*v)) {
                                    Ok(Ok(b)) if b == *alone => None,
                                    Ok(Ok(_)) => Some("different bytes".to_string()),
                                    Ok(Err(e)) => Some(e.to_string()),
                                    Err(p) => Some(format!("panic: {p}")),
                                }
                            }
                        })
                        .unwrap()
                })
                .collect();
            for (t, h) in hs.into_iter().enumerate() {
                match h.join() {
                    Ok(None) => {}
                    Ok(Some(why)) => bad.push(json!({"what": "a call that succeeds alone gives another result while other threads are inside their calls",
                                                     "ty": name, "phase": phase, "thread": t, "threads": threads, "got": why})),
                    Err(_) => bad.push(json!({"what": "thread died", "ty": name, "phase": phase, "thread": t})),
                }
            }
            *GATE.write().unwrap() = None;
        }
        bad
    }
    let mut bad = run("GEvo (header at every level)", gevo(depth), threads);
    bad.extend(run("GEnum (headerless)", genum(depth), threads));
    bad
}

// ---------------------------------------------------------------------------------------------
// C18: the default expression of a FieldAdded step is user code; it is evaluated by the call that needs it,
// in the thread of that call - a call's result is what the same call gives in a fresh process
thread_local! {
    pub static REGION: std::cell::Cell<u8> = std::cell::Cell::new(0);
}
fn region() -> u8 {
    REGION.with(|r| r.get())
}
macro_rules! order_type {
    ($name:ident, $opt:ident) => {
        #[derive(desert_macro::BinaryCodec, PartialEq, Debug, Clone)]
        #[evolution(FieldAdded("region", region()))]
        pub struct $name {
            pub id: u8,
            pub region: u8,
        }
        #[derive(desert_macro::BinaryCodec, PartialEq, Debug, Clone)]
        #[evolution(FieldAdded("note", Some(region())))]
        pub struct $opt {
            pub id: u8,
            pub note: Option<u8>,
        }
    };
}
order_type!(OrderA, OrderOptA);
order_type!(OrderB, OrderOptB);
order_type!(OrderC, OrderOptC);

/// returns descriptions of calls whose result is not the result of the same call in a fresh process
pub fn default_calls(threads: usize) -> Vec<Value> {
    let mut bad = Vec::new();
    let old = [0u8, 5];                       // written by version 0: only `id`
    let mut expect = |what: &str, got: Result<(u8, Option<u8>), String>, want: (u8, Option<u8>)| {
        if got != Ok(want) {
            bad.push(json!({"what": what, "got": format!("{got:?}"), "want": format!("{want:?}")}));
        }
    };
    // A: old data twice with different settings
    REGION.with(|r| r.set(7));
    expect("old data, setting 7", deserialize::<OrderA>(&old).map(|o| (o.region, None)).map_err(|e| e.to_string()), (7, None));
    expect("old data, setting 7 (optional field)", deserialize::<OrderOptA>(&old).map(|o| (0, o.note)).map_err(|e| e.to_string()), (0, Some(7)));
    REGION.with(|r| r.set(9));
    expect("old data again, setting 9", deserialize::<OrderA>(&old).map(|o| (o.region, None)).map_err(|e| e.to_string()), (9, None));
    expect("old data again, setting 9 (optional field)", deserialize::<OrderOptA>(&old).map(|o| (0, o.note)).map_err(|e| e.to_string()), (0, Some(9)));
    // B: new data first (the default is not needed), then old data
    REGION.with(|r| r.set(3));
    let new = serialize_to_byte_vec(&OrderB { id: 5, region: 42 }).unwrap_or_default();
    expect("new data first", deserialize::<OrderB>(&new).map(|o| (o.region, None)).map_err(|e| e.to_string()), (42, None));
    REGION.with(|r| r.set(11));
    expect("old data after new data, setting 11", deserialize::<OrderB>(&old).map(|o| (o.region, None)).map_err(|e| e.to_string()), (11, None));
    // C: first use on several threads at once, each with its own setting
    let barrier = Arc::new(std::sync::Barrier::new(threads));
    let hs: Vec<_> = (0..threads)
        .map(|t| {
            let barrier = barrier.clone();
            std::thread::spawn(move || {
                REGION.with(|r| r.set(20 + t as u8));
                barrier.wait();
                let a = deserialize::<OrderC>(&[0u8, 5]).map(|o| o.region).map_err(|e| e.to_string());
                let b = deserialize::<OrderOptC>(&[0u8, 5]).map(|o| o.note).map_err(|e| e.to_string());
                (t, a, b)
            })
        })
        .collect();
    for h in hs {
        if let Ok((t, a, b)) = h.join() {
            if a != Ok(20 + t as u8) || b != Ok(Some(20 + t as u8)) {
                bad.push(json!({"what": "first use on several threads: a thread's call sees another thread's default", "thread": t,
                                "got": format!("{a:?} / {b:?}"), "want": 20 + t}));
            }
        }
    }
    bad
}
