//! Model value <-> Rust value glue.  Trusted; never calls the library under test.
//!
//! A model value is a JSON array whose first element is a constructor tag
//! (see spec/Codec.tla): numbers are big-endian digit arrays, strings are
//! UTF-8 byte arrays, containers are arrays of model values.
use bigdecimal::num_bigint::BigInt;
use bigdecimal::BigDecimal;
use bytes::Bytes;
use chrono::{
    DateTime, Datelike, FixedOffset, Local, Month, NaiveDate, NaiveDateTime, NaiveTime, TimeZone,
    Timelike, Utc, Weekday,
};
use chrono_tz::Tz;
use desert_core::DeduplicatedString;
use serde_json::{json, Value};
use std::any::TypeId;
use std::collections::{BTreeMap, BTreeSet, HashMap, HashSet, LinkedList};
use std::hash::Hash;
use std::marker::PhantomData;
use std::rc::Rc;
use std::str::FromStr;
use std::sync::Arc;
use std::time::Duration;
use uuid::Uuid;

pub trait ModelType: Sized + 'static {
    fn from_model(v: &Value) -> Self;
    fn to_model(&self) -> Value;
}

pub fn arr(v: &Value) -> &Vec<Value> {
    v.as_array().unwrap_or_else(|| panic!("model value is not an array: {v}"))
}
pub fn int(v: &Value) -> i64 {
    v.as_i64().unwrap_or_else(|| panic!("model value is not an int: {v}"))
}
/// elements 1.. as bytes
pub fn tail_bytes(v: &Value) -> Vec<u8> {
    arr(v)[1..].iter().map(|x| int(x) as u8).collect()
}
pub fn tagged_bytes(tag: i64, b: &[u8]) -> Value {
    let mut out = vec![json!(tag)];
    out.extend(b.iter().map(|x| json!(*x)));
    Value::Array(out)
}
fn digits_to_u128(d: &[u8]) -> u128 {
    let mut acc: u128 = 0;
    for x in d {
        acc = acc.wrapping_mul(256).wrapping_add(*x as u128);
    }
    acc
}
fn u128_to_digits(mut x: u128, w: usize) -> Vec<u8> {
    let mut out = vec![0u8; w];
    for i in (0..w).rev() {
        out[i] = (x % 256) as u8;
        x /= 256;
    }
    out
}

macro_rules! impl_fixed {
    ($($t:ty : $w:expr),*) => {$(
        impl ModelType for $t {
            fn from_model(v: &Value) -> Self {
                let d = tail_bytes(v);
                assert_eq!(d.len(), $w, "width of {}", stringify!($t));
                digits_to_u128(&d) as $t
            }
            fn to_model(&self) -> Value {
                // two's complement reinterpretation, then digits
                let w: usize = $w;
                let x = if w == 16 { *self as u128 } else { (*self as u128) & ((1u128 << (8 * w)) - 1) };
                tagged_bytes(0, &u128_to_digits(x, w))
            }
        }
    )*};
}
impl_fixed!(u8:1, i8:1, u16:2, i16:2, u32:4, i32:4, u64:8, i64:8, u128:16, i128:16);

impl ModelType for f32 {
    fn from_model(v: &Value) -> Self {
        f32::from_bits(u32::from_model(v))
    }
    fn to_model(&self) -> Value {
        self.to_bits().to_model()
    }
}
impl ModelType for f64 {
    fn from_model(v: &Value) -> Self {
        f64::from_bits(u64::from_model(v))
    }
    fn to_model(&self) -> Value {
        self.to_bits().to_model()
    }
}
impl ModelType for bool {
    fn from_model(v: &Value) -> Self {
        int(&arr(v)[1]) != 0
    }
    fn to_model(&self) -> Value {
        json!([1, if *self { 1 } else { 0 }])
    }
}
impl ModelType for () {
    fn from_model(_: &Value) -> Self {}
    fn to_model(&self) -> Value {
        json!([2])
    }
}
impl<T: 'static> ModelType for PhantomData<T> {
    fn from_model(_: &Value) -> Self {
        PhantomData
    }
    fn to_model(&self) -> Value {
        json!([2])
    }
}
impl ModelType for char {
    fn from_model(v: &Value) -> Self {
        // [0, hi, lo] (BMP) or [0, x, hi, lo] (supplementary plane)
        let d = tail_bytes(v);
        let cp = digits_to_u128(&d) as u32;
        char::from_u32(cp).unwrap_or_else(|| panic!("not a scalar value: {cp:x}"))
    }
    fn to_model(&self) -> Value {
        let cp = *self as u32;
        if cp <= 0xffff {
            tagged_bytes(0, &u128_to_digits(cp as u128, 2))
        } else {
            tagged_bytes(0, &u128_to_digits(cp as u128, 3))
        }
    }
}
impl ModelType for String {
    fn from_model(v: &Value) -> Self {
        String::from_utf8(tail_bytes(v)).expect("model string is UTF-8")
    }
    fn to_model(&self) -> Value {
        tagged_bytes(3, self.as_bytes())
    }
}
impl ModelType for DeduplicatedString {
    fn from_model(v: &Value) -> Self {
        DeduplicatedString(String::from_model(v))
    }
    fn to_model(&self) -> Value {
        self.0.to_model()
    }
}
impl ModelType for Duration {
    fn from_model(v: &Value) -> Self {
        let d = tail_bytes(v);
        Duration::new(digits_to_u128(&d[0..8]) as u64, digits_to_u128(&d[8..12]) as u32)
    }
    fn to_model(&self) -> Value {
        let mut d = u128_to_digits(self.as_secs() as u128, 8);
        d.extend(u128_to_digits(self.subsec_nanos() as u128, 4));
        tagged_bytes(0, &d)
    }
}
impl ModelType for Uuid {
    fn from_model(v: &Value) -> Self {
        let d = tail_bytes(v);
        let a: [u8; 16] = d.try_into().unwrap();
        Uuid::from_bytes(a)
    }
    fn to_model(&self) -> Value {
        tagged_bytes(0, self.as_bytes())
    }
}
impl ModelType for Weekday {
    fn from_model(v: &Value) -> Self {
        match int(&arr(v)[1]) {
            1 => Weekday::Mon,
            2 => Weekday::Tue,
            3 => Weekday::Wed,
            4 => Weekday::Thu,
            5 => Weekday::Fri,
            6 => Weekday::Sat,
            7 => Weekday::Sun,
            x => panic!("weekday {x}"),
        }
    }
    fn to_model(&self) -> Value {
        let n = match self {
            Weekday::Mon => 1,
            Weekday::Tue => 2,
            Weekday::Wed => 3,
            Weekday::Thu => 4,
            Weekday::Fri => 5,
            Weekday::Sat => 6,
            Weekday::Sun => 7,
        };
        json!([0, n])
    }
}
const MONTHS: [Month; 12] = [
    Month::January,
    Month::February,
    Month::March,
    Month::April,
    Month::May,
    Month::June,
    Month::July,
    Month::August,
    Month::September,
    Month::October,
    Month::November,
    Month::December,
];
impl ModelType for Month {
    fn from_model(v: &Value) -> Self {
        MONTHS[(int(&arr(v)[1]) - 1) as usize]
    }
    fn to_model(&self) -> Value {
        json!([0, MONTHS.iter().position(|m| m == self).unwrap() + 1])
    }
}
impl ModelType for FixedOffset {
    fn from_model(v: &Value) -> Self {
        FixedOffset::east_opt(int(&arr(v)[1]) as i32).expect("offset in range")
    }
    fn to_model(&self) -> Value {
        json!([11, self.local_minus_utc()])
    }
}
impl ModelType for Tz {
    fn from_model(v: &Value) -> Self {
        Tz::from_str(&String::from_model(v)).expect("known zone")
    }
    fn to_model(&self) -> Value {
        self.name().to_string().to_model()
    }
}
impl ModelType for NaiveDate {
    fn from_model(v: &Value) -> Self {
        let a = arr(v);
        NaiveDate::from_ymd_opt(int(&a[1]) as i32, int(&a[2]) as u32, int(&a[3]) as u32)
            .unwrap_or_else(|| panic!("model date invalid for chrono: {v}"))
    }
    fn to_model(&self) -> Value {
        json!([12, self.year(), self.month(), self.day()])
    }
}
impl ModelType for NaiveTime {
    fn from_model(v: &Value) -> Self {
        let a = arr(v);
        NaiveTime::from_hms_nano_opt(
            int(&a[1]) as u32,
            int(&a[2]) as u32,
            int(&a[3]) as u32,
            int(&a[4]) as u32,
        )
        .unwrap_or_else(|| panic!("model time invalid for chrono: {v}"))
    }
    fn to_model(&self) -> Value {
        json!([13, self.hour(), self.minute(), self.second(), self.nanosecond()])
    }
}
impl ModelType for NaiveDateTime {
    fn from_model(v: &Value) -> Self {
        let a = arr(v);
        NaiveDateTime::new(NaiveDate::from_model(&a[1]), NaiveTime::from_model(&a[2]))
    }
    fn to_model(&self) -> Value {
        json!([14, self.date().to_model(), self.time().to_model()])
    }
}
impl ModelType for DateTime<Utc> {
    fn from_model(v: &Value) -> Self {
        let d = tail_bytes(v);
        let secs = digits_to_u128(&d[0..8]) as u64 as i64;
        let nanos = digits_to_u128(&d[8..12]) as u32;
        DateTime::<Utc>::from_timestamp(secs, nanos).expect("model timestamp in range")
    }
    fn to_model(&self) -> Value {
        let mut d = u128_to_digits(self.timestamp() as u64 as u128, 8);
        d.extend(u128_to_digits(self.timestamp_subsec_nanos() as u128, 4));
        tagged_bytes(0, &d)
    }
}
impl ModelType for DateTime<Local> {
    // checks pin TZ=UTC: local time == naive time
    fn from_model(v: &Value) -> Self {
        Local
            .from_local_datetime(&NaiveDateTime::from_model(v))
            .single()
            .expect("unambiguous local time (TZ=UTC)")
    }
    fn to_model(&self) -> Value {
        self.naive_local().to_model()
    }
}
impl ModelType for DateTime<FixedOffset> {
    fn from_model(v: &Value) -> Self {
        let a = arr(v);
        FixedOffset::from_model(&a[2])
            .from_local_datetime(&NaiveDateTime::from_model(&a[1]))
            .single()
            .expect("fixed offset local time")
    }
    fn to_model(&self) -> Value {
        json!([15, self.naive_local().to_model(), self.offset().to_model()])
    }
}
impl ModelType for DateTime<Tz> {
    fn from_model(v: &Value) -> Self {
        let a = arr(v);
        Tz::from_model(&a[2]).from_utc_datetime(&NaiveDateTime::from_model(&a[1]))
    }
    fn to_model(&self) -> Value {
        json!([16, self.naive_utc().to_model(), self.timezone().to_model()])
    }
}
impl ModelType for BigInt {
    fn from_model(v: &Value) -> Self {
        BigInt::from_signed_bytes_be(&tail_bytes(v))
    }
    fn to_model(&self) -> Value {
        tagged_bytes(9, &self.to_signed_bytes_be())
    }
}
impl ModelType for BigDecimal {
    fn from_model(v: &Value) -> Self {
        BigDecimal::from_str(&String::from_model(v)).expect("model decimal parses")
    }
    fn to_model(&self) -> Value {
        self.to_string().to_model()
    }
}
impl ModelType for Bytes {
    fn from_model(v: &Value) -> Self {
        Bytes::from(tail_bytes(v))
    }
    fn to_model(&self) -> Value {
        tagged_bytes(9, self)
    }
}

fn is_u8<T: 'static>() -> bool {
    TypeId::of::<T>() == TypeId::of::<u8>()
}
/// items of a sequence-like model value; a byte-run value (tag 9) is seen as u8 items
fn items<T: ModelType>(v: &Value) -> Vec<T> {
    let a = arr(v);
    if int(&a[0]) == 9 {
        a[1..].iter().map(|b| T::from_model(&json!([0, b]))).collect()
    } else {
        a[1..].iter().map(T::from_model).collect()
    }
}
fn seq_model<'a, T: ModelType>(it: impl Iterator<Item = &'a T>) -> Value {
    if is_u8::<T>() {
        let mut out = vec![json!(9)];
        out.extend(it.map(|x| arr(&x.to_model())[1].clone()));
        Value::Array(out)
    } else {
        let mut out = vec![json!(8)];
        out.extend(it.map(|x| x.to_model()));
        Value::Array(out)
    }
}
fn sorted_model(mut ms: Vec<Value>) -> Value {
    ms.sort_by_key(|m| m.to_string());
    let mut out = vec![json!(8)];
    out.extend(ms);
    Value::Array(out)
}

impl<T: ModelType> ModelType for Vec<T> {
    fn from_model(v: &Value) -> Self {
        items(v)
    }
    fn to_model(&self) -> Value {
        seq_model(self.iter())
    }
}
impl<T: ModelType, const N: usize> ModelType for [T; N] {
    fn from_model(v: &Value) -> Self {
        let xs: Vec<T> = items(v);
        xs.try_into().unwrap_or_else(|_| panic!("array length {N}: {v}"))
    }
    fn to_model(&self) -> Value {
        seq_model(self.iter())
    }
}
impl<T: ModelType> ModelType for LinkedList<T> {
    fn from_model(v: &Value) -> Self {
        items::<T>(v).into_iter().collect()
    }
    fn to_model(&self) -> Value {
        let mut out = vec![json!(8)];
        out.extend(self.iter().map(|x| x.to_model()));
        Value::Array(out)
    }
}
// sets and maps: canonical form = items sorted by their JSON text (both the
// expected and the observed value pass through from_model/to_model)
impl<T: ModelType + Eq + Hash> ModelType for HashSet<T> {
    fn from_model(v: &Value) -> Self {
        items::<T>(v).into_iter().collect()
    }
    fn to_model(&self) -> Value {
        sorted_model(self.iter().map(|x| x.to_model()).collect())
    }
}
impl<T: ModelType + Ord> ModelType for BTreeSet<T> {
    fn from_model(v: &Value) -> Self {
        items::<T>(v).into_iter().collect()
    }
    fn to_model(&self) -> Value {
        sorted_model(self.iter().map(|x| x.to_model()).collect())
    }
}
impl<K: ModelType + Eq + Hash, V: ModelType> ModelType for HashMap<K, V> {
    fn from_model(v: &Value) -> Self {
        items::<(K, V)>(v).into_iter().collect()
    }
    fn to_model(&self) -> Value {
        sorted_model(self.iter().map(|(k, v)| json!([10, k.to_model(), v.to_model()])).collect())
    }
}
impl<K: ModelType + Ord, V: ModelType> ModelType for BTreeMap<K, V> {
    fn from_model(v: &Value) -> Self {
        items::<(K, V)>(v).into_iter().collect()
    }
    fn to_model(&self) -> Value {
        sorted_model(self.iter().map(|(k, v)| json!([10, k.to_model(), v.to_model()])).collect())
    }
}
impl<T: ModelType> ModelType for Option<T> {
    fn from_model(v: &Value) -> Self {
        let a = arr(v);
        match int(&a[0]) {
            4 => None,
            5 => Some(T::from_model(&a[1])),
            t => panic!("option tag {t}"),
        }
    }
    fn to_model(&self) -> Value {
        match self {
            None => json!([4]),
            Some(x) => json!([5, x.to_model()]),
        }
    }
}
impl<A: ModelType, B: ModelType> ModelType for Result<A, B> {
    fn from_model(v: &Value) -> Self {
        let a = arr(v);
        match int(&a[0]) {
            6 => Ok(A::from_model(&a[1])),
            7 => Err(B::from_model(&a[1])),
            t => panic!("result tag {t}"),
        }
    }
    fn to_model(&self) -> Value {
        match self {
            Ok(x) => json!([6, x.to_model()]),
            Err(x) => json!([7, x.to_model()]),
        }
    }
}
impl<T: ModelType> ModelType for Box<T> {
    fn from_model(v: &Value) -> Self {
        Box::new(T::from_model(v))
    }
    fn to_model(&self) -> Value {
        (**self).to_model()
    }
}
impl<T: ModelType> ModelType for Rc<T> {
    fn from_model(v: &Value) -> Self {
        Rc::new(T::from_model(v))
    }
    fn to_model(&self) -> Value {
        (**self).to_model()
    }
}
impl<T: ModelType> ModelType for Arc<T> {
    fn from_model(v: &Value) -> Self {
        Arc::new(T::from_model(v))
    }
    fn to_model(&self) -> Value {
        (**self).to_model()
    }
}

macro_rules! impl_tuple {
    ($($name:ident : $idx:tt),+) => {
        impl<$($name: ModelType),+> ModelType for ($($name,)+) {
            fn from_model(v: &Value) -> Self {
                let a = arr(v);
                ($($name::from_model(&a[$idx + 1]),)+)
            }
            fn to_model(&self) -> Value {
                Value::Array(vec![json!(10), $(self.$idx.to_model()),+])
            }
        }
    };
}
impl_tuple!(A:0);
impl_tuple!(A:0, B:1);
impl_tuple!(A:0, B:1, C:2);
impl_tuple!(A:0, B:1, C:2, D:3);
impl_tuple!(A:0, B:1, C:2, D:3, E:4);
impl_tuple!(A:0, B:1, C:2, D:3, E:4, F:5);
impl_tuple!(A:0, B:1, C:2, D:3, E:4, F:5, G:6);
impl_tuple!(A:0, B:1, C:2, D:3, E:4, F:5, G:6, H:7);

/// a Rust value from the JSON text of a model value (used for defaults in generated declarations)
pub fn mv<T: ModelType>(json_text: &str) -> T {
    T::from_model(&serde_json::from_str(json_text).expect("model json"))
}
/// an Option the derive macro cannot recognise by its spelling
pub type Opt<T> = Option<T>;

/// a bare var_u32 (hand-written codecs write line numbers etc. this way)
#[derive(Debug, Clone, Copy, PartialEq, Eq, Hash, PartialOrd, Ord)]
pub struct VarU32(pub u32);
impl desert_core::BinarySerializer for VarU32 {
    fn serialize<O: desert_core::BinaryOutput>(&self, ctx: &mut desert_core::SerializationContext<O>) -> desert_core::Result<()> {
        use desert_core::BinaryOutput;
        ctx.write_var_u32(self.0);
        Ok(())
    }
}
impl desert_core::BinaryDeserializer for VarU32 {
    fn deserialize(ctx: &mut desert_core::DeserializationContext<'_>) -> desert_core::Result<Self> {
        use desert_core::BinaryInput;
        Ok(VarU32(ctx.read_var_u32()?))
    }
}
impl ModelType for VarU32 {
    fn from_model(v: &Value) -> Self {
        let a = arr(v);
        VarU32(((int(&a[1]) as u64) * (1 << 28) + int(&a[2]) as u64) as u32)
    }
    fn to_model(&self) -> Value {
        json!([17, self.0 >> 28, self.0 & 0x0fff_ffff])
    }
}
