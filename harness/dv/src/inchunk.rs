//! A record written with the public AdtSerializer API whose middle field lives in
//! chunk 1: whatever it embeds is decoded through a region that does not start at 0.
use crate::model::{arr, ModelType};
use desert_core::adt::{AdtDeserializer, AdtMetadata, AdtSerializer};
use desert_core::{
    BinaryDeserializer, BinaryInput, BinaryOutput, BinarySerializer, DeserializationContext,
    Evolution, SerializationContext,
};
use lazy_static::lazy_static;
use serde_json::{json, Value};

lazy_static! {
    static ref INCHUNK_METADATA: AdtMetadata = AdtMetadata::new(vec![
        Evolution::InitialVersion,
        Evolution::FieldAdded { name: "mid".to_string() },
    ]);
}

pub struct InChunk<T> {
    pub pre: u8,
    pub mid: T,
    pub post: u8,
}

impl<T: BinarySerializer> BinarySerializer for InChunk<T> {
    fn serialize<Output: BinaryOutput>(&self, context: &mut SerializationContext<Output>) -> desert_core::Result<()> {
        let mut serializer = AdtSerializer::new(&INCHUNK_METADATA, context);
        serializer.write_field("pre", &self.pre)?;
        serializer.write_field("mid", &self.mid)?;
        serializer.write_field("post", &self.post)?;
        serializer.finish()
    }
}

impl<T: BinaryDeserializer> BinaryDeserializer for InChunk<T> {
    fn deserialize(context: &mut DeserializationContext<'_>) -> desert_core::Result<Self> {
        let stored_version = context.read_u8()?;
        let mut deserializer = if stored_version == 0 {
            AdtDeserializer::new_v0(&INCHUNK_METADATA, context)?
        } else {
            AdtDeserializer::new(&INCHUNK_METADATA, context, stored_version)?
        };
        Ok(InChunk {
            pre: deserializer.read_field("pre", None)?,
            mid: deserializer.read_field("mid", None)?,
            post: deserializer.read_field("post", None)?,
        })
    }
}

impl<T: ModelType> ModelType for InChunk<T> {
    fn from_model(v: &Value) -> Self {
        let a = arr(v);
        InChunk { pre: u8::from_model(&a[1]), mid: T::from_model(&a[2]), post: u8::from_model(&a[3]) }
    }
    fn to_model(&self) -> Value {
        json!([20, self.pre.to_model(), self.mid.to_model(), self.post.to_model()])
    }
}
