//! Recording of implementation traces (hook events of desert_core::verif) for validation by TLC.
//!
//! A case asks for a trace by carrying "trace": <path>.  The file is appended to, one JSON event per line,
//! in the vocabulary of the Trace_*.tla module that will read it.
use desert_core::verif;
use serde_json::{json, Value};
use std::io::Write;

pub struct TraceFile {
    out: std::io::BufWriter<std::fs::File>,
    pub events: u64,
}

impl TraceFile {
    pub fn open(case: &Value) -> Option<TraceFile> {
        let path = case.get("trace")?.as_str()?;
        let f = std::fs::OpenOptions::new().create(true).append(true).open(path).ok()?;
        Some(TraceFile { out: std::io::BufWriter::new(f), events: 0 })
    }
    pub fn line(&mut self, v: Value) {
        writeln!(self.out, "{v}").unwrap();
        self.events += 1;
    }
    pub fn start(&self) {
        verif::take();
        verif::enable(true);
    }
    pub fn stop(&self) -> Vec<verif::Event> {
        verif::enable(false);
        verif::take()
    }
    pub fn flush(&mut self) {
        self.out.flush().unwrap();
    }
}

/// reader mechanism events (Trace_Reader.tla)
pub fn reader_events(t: &mut TraceFile, evs: &[verif::Event]) {
    for e in evs {
        match e.kind {
            "dctx" => t.line(json!({"ev": "dctx", "n": e.a})),
            "r" | "sk" => t.line(json!({"ev": e.kind, "at": e.a, "n": e.b.min(1 << 30), "ok": e.c})),
            "pushr" => {
                let mut it = e.s.split(' ');
                let ae: i64 = it.next().and_then(|x| x.parse().ok()).unwrap_or(-1);
                t.line(json!({"ev": "pushr", "rs": e.a, "rp": e.b, "re": e.c, "as": e.d, "ae": ae}))
            }
            "popr" => t.line(json!({"ev": "popr"})),
            _ => {}
        }
    }
}

/// string table events (Trace_Tables.tla)
pub fn table_events(t: &mut TraceFile, evs: &[verif::Event]) {
    for e in evs {
        if e.kind == "str" {
            t.line(json!({"ev": "str", "id": e.a, "new": e.b, "s": e.s}));
        }
    }
}

/// call-level events of a multi-threaded run, in global sequence order (Trace_Calls.tla)
pub fn call_events(t: &mut TraceFile, evs: &[verif::Event]) {
    let mut evs: Vec<&verif::Event> = evs.iter().collect();
    evs.sort_by_key(|e| e.seq);
    // thread numbers as small integers in order of appearance
    let mut threads: Vec<u64> = Vec::new();
    let mut tn = |id: u64| -> usize {
        match threads.iter().position(|x| *x == id) {
            Some(i) => i,
            None => {
                threads.push(id);
                threads.len() - 1
            }
        }
    };
    for e in evs {
        match e.kind {
            "metainit" => t.line(json!({"ev": "metainit", "name": e.s, "t": tn(e.thread)})),
            "sctx" | "dctx" => t.line(json!({"ev": "ctx", "t": tn(e.thread)})),
            "str" | "ref" => t.line(json!({"ev": e.kind, "id": e.a, "new": e.b, "t": tn(e.thread)})),
            _ => {}
        }
    }
}

/// record mechanism events (Trace_Adt.tla): the writer's and the reader's decisions per field
pub fn adt_events(t: &mut TraceFile, evs: &[verif::Event]) {
    for e in evs {
        match e.kind {
            "anew" => t.line(json!({"ev": "anew", "ver": e.a, "buf": e.b})),
            "wf" => t.line(json!({"ev": "wf", "chunk": e.a, "buf": e.b, "n": e.s.as_bytes()})),
            "afin" => t.line(json!({"ev": "afin", "nb": e.a})),
            "dnew" => t.line(json!({"ev": "dnew", "stored": e.a, "nin": e.b, "ver": e.c})),
            "rf" => t.line(json!({"ev": "rf", "kind": e.a, "chunk": e.b, "n": e.s.as_bytes()})),
            "wc" => t.line(json!({"ev": "wc", "idx": e.a})),
            "rc" => t.line(json!({"ev": "rc", "idx": e.a, "case": e.b})),
            _ => {}
        }
    }
}

/// writer mechanism events (Trace_Writer.tla)
pub fn writer_events(t: &mut TraceFile, evs: &[verif::Event]) {
    for e in evs {
        match e.kind {
            "sctx" => t.line(json!({"ev": "sctx"})),
            "w" => t.line(json!({"ev": "w", "n": e.a.min(1 << 30), "d": e.b})),
            "pushb" => t.line(json!({"ev": "pushb", "len": e.a, "d": e.b})),
            "popb" => t.line(json!({"ev": "popb", "len": e.a, "d": e.b})),
            "anew" => t.line(json!({"ev": "anew", "ver": e.a, "buf": e.b})),
            "wf" => t.line(json!({"ev": "wf", "chunk": e.a, "buf": e.b})),
            "afin" => t.line(json!({"ev": "afin", "nb": e.a})),
            "ahdr" => t.line(json!({"ev": "ahdr"})),
            "aend" => t.line(json!({"ev": "aend"})),
            _ => {}
        }
    }
}

/// object table events (Trace_Refs.tla)
pub fn ref_events(t: &mut TraceFile, evs: &[verif::Event]) {
    for e in evs {
        match e.kind {
            "ref" => t.line(json!({"ev": "ref", "id": e.a, "new": e.b})),
            "tref" => t.line(json!({"ev": "tref", "id": e.a})),
            _ => {}
        }
    }
}
