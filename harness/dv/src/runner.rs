//! Case file in, findings out.
//!
//! usage: run_x <cases.ndjson> <findings.ndjson> [--from N]
//! Each input line is one JSON case with "id" and "kind".  Each output line is
//! a finding {"case", "check", "props", "detail"}; the last line is a summary.
//! A heartbeat file <findings>.cur holds the id of the case being executed so
//! that the caller can attribute a hang or an abort to a case.
use crate::ops::TypeOps;
use serde_json::{json, Map, Value};
use std::collections::BTreeMap;
use std::io::{BufRead, BufReader, Write};

pub type Dispatch = fn(usize) -> Option<&'static dyn TypeOps>;

use std::sync::atomic::{AtomicI64, AtomicU64, Ordering::Relaxed};
use std::sync::Mutex;
static PROGRESS: AtomicU64 = AtomicU64::new(0);
static CUR_CASE: AtomicI64 = AtomicI64::new(-1);
static CUR_INPUT: Mutex<Vec<u8>> = Mutex::new(Vec::new());

/// called before every call into the library with the input about to be used
pub fn progress(input: &[u8]) {
    PROGRESS.fetch_add(1, Relaxed);
    if let Ok(mut g) = CUR_INPUT.lock() {
        g.clear();
        g.extend_from_slice(&input[..input.len().min(256)]);
    }
}

/// A call that makes no progress for `secs` seconds is reported and the process exits with 3.
fn start_watchdog(findings_path: String, secs: u64) {
    std::thread::spawn(move || {
        let mut last = (PROGRESS.load(Relaxed), CUR_CASE.load(Relaxed));
        let mut since = std::time::Instant::now();
        loop {
            std::thread::sleep(std::time::Duration::from_millis(200));
            let now = (PROGRESS.load(Relaxed), CUR_CASE.load(Relaxed));
            if now != last {
                last = now;
                since = std::time::Instant::now();
            } else if since.elapsed().as_secs() >= secs && now.1 >= 0 {
                let input = CUR_INPUT.lock().map(|g| g.clone()).unwrap_or_default();
                let line = json!({"case": now.1, "check": "hang", "props": ["C05"],
                                  "detail": {"bytes": input, "seconds": secs}});
                if let Ok(mut f) = std::fs::OpenOptions::new().append(true).create(true).open(&findings_path) {
                    let _ = writeln!(f, "{line}");
                }
                std::process::exit(3);
            }
        }
    });
}

pub struct Report {
    out: Box<dyn Write>,
    pub case_id: i64,
    pub findings: usize,
    /// evaluations per check name
    pub counts: BTreeMap<String, u64>,
    pub skipped: BTreeMap<String, u64>,
}
impl Report {
    /// a report that only counts (used for nested checks)
    pub fn sink() -> Report {
        Report { out: Box::new(std::io::sink()), case_id: -1, findings: 0, counts: BTreeMap::new(), skipped: BTreeMap::new() }
    }
    pub fn count(&mut self, check: &str) {
        *self.counts.entry(check.to_string()).or_insert(0) += 1;
    }
    pub fn skip(&mut self, why: &str) {
        *self.skipped.entry(why.to_string()).or_insert(0) += 1;
    }
    /// a disagreement between the implementation and the specification
    pub fn finding(&mut self, check: &str, props: &[&str], detail: Value) {
        self.findings += 1;
        let line = json!({"case": self.case_id, "check": check, "props": props, "detail": detail});
        writeln!(self.out, "{line}").unwrap();
    }
    /// an observation that is not a verdict (error class differs, ...)
    pub fn note(&mut self, check: &str, detail: Value) {
        let line = json!({"case": self.case_id, "note": check, "detail": detail});
        writeln!(self.out, "{line}").unwrap();
    }
}

pub type Handler = fn(&Value, Dispatch, &mut Report);

pub fn run_main(dispatch: Dispatch, handlers: &[(&str, Handler)]) {
    let args: Vec<String> = std::env::args().collect();
    if args.len() < 3 {
        eprintln!("usage: {} <cases.ndjson> <findings.ndjson> [--from N]", args[0]);
        std::process::exit(2);
    }
    let from: i64 = args
        .iter()
        .position(|a| a == "--from")
        .map(|i| args[i + 1].parse().unwrap())
        .unwrap_or(0);
    crate::ops::install_panic_hook();
    let hang_secs: u64 = std::env::var("DV_HANG_SECS").ok().and_then(|s| s.parse().ok()).unwrap_or(10);
    start_watchdog(args[2].clone(), hang_secs);
    let input = BufReader::new(std::fs::File::open(&args[1]).expect("cases file"));
    let out = std::fs::OpenOptions::new()
        .create(true)
        .append(true)
        .open(&args[2])
        .expect("findings file");
    let cur_path = format!("{}.cur", args[2]);
    let mut report = Report {
        out: Box::new(std::io::BufWriter::new(out)),
        case_id: -1,
        findings: 0,
        counts: BTreeMap::new(),
        skipped: BTreeMap::new(),
    };
    let mut n_cases = 0u64;
    for line in input.lines() {
        let line = line.unwrap();
        if line.trim().is_empty() {
            continue;
        }
        let case: Value = serde_json::from_str(&line).expect("case json");
        let id = case["id"].as_i64().unwrap_or(-1);
        if id < from {
            continue;
        }
        report.case_id = id;
        CUR_CASE.store(id, Relaxed);
        PROGRESS.fetch_add(1, Relaxed);
        std::fs::write(&cur_path, id.to_string()).ok();
        let kind = case["kind"].as_str().unwrap_or("");
        match handlers.iter().find(|(k, _)| *k == kind) {
            Some((_, h)) => h(&case, dispatch, &mut report),
            None => {
                eprintln!("unknown case kind {kind}");
                std::process::exit(2);
            }
        }
        n_cases += 1;
        if n_cases % 50 == 0 {
            // partial summary: survives a crash of this process
            let line = json!({"summary": true, "partial": true, "pid": std::process::id(), "cases": n_cases,
                              "findings": report.findings, "counts": report.counts, "skipped": report.skipped});
            writeln!(report.out, "{line}").unwrap();
        }
        report.out.flush().unwrap();
    }
    let mut m = Map::new();
    m.insert("summary".into(), json!(true));
    m.insert("pid".into(), json!(std::process::id()));
    m.insert("cases".into(), json!(n_cases));
    m.insert("findings".into(), json!(report.findings));
    m.insert("counts".into(), json!(report.counts));
    m.insert("skipped".into(), json!(report.skipped));
    writeln!(report.out, "{}", Value::Object(m)).unwrap();
    report.out.flush().unwrap();
    std::fs::remove_file(&cur_path).ok();
}

pub fn bytes_of(v: &Value) -> Vec<u8> {
    v.as_array()
        .unwrap_or_else(|| panic!("not a byte array: {v}"))
        .iter()
        .map(|x| x.as_u64().unwrap() as u8)
        .collect()
}
