//! C18: kind "stress": N threads released by a barrier onto first use of many derived types
//! (each with its own lazily initialised metadata), then steady state.  Every call's result must be
//! the specification's answer for that call alone (computed by TLC for a fresh context).
//!
//! {"kind":"stress","threads":N,"rounds":R,"items":[{"tid","v","b","dv"},..],"graph":{..graph case..}}
use crate::ops::Outcome;
use crate::runner::{bytes_of, Dispatch, Report};
use serde_json::{json, Value};
use std::sync::{Arc, Barrier, Mutex};

pub fn stress_case(case: &Value, dispatch: Dispatch, r: &mut Report) {
    let threads = case["threads"].as_u64().unwrap() as usize;
    let rounds = case["rounds"].as_u64().unwrap_or(2) as usize;
    let items: Arc<Vec<Value>> = Arc::new(case["items"].as_array().unwrap().clone());
    let graph: Arc<Option<Value>> = Arc::new(case.get("graph").cloned().filter(|g| g.is_object()));
    let mut tracefile = crate::trace::TraceFile::open(case);
    if let Some(t) = &tracefile {
        t.start();
    }
    let barrier = Arc::new(Barrier::new(threads));
    let bad: Arc<Mutex<Vec<Value>>> = Arc::new(Mutex::new(Vec::new()));
    let calls = Arc::new(std::sync::atomic::AtomicU64::new(0));
    let handles: Vec<_> = (0..threads)
        .map(|t| {
            let (items, barrier, bad, calls, graph) = (items.clone(), barrier.clone(), bad.clone(), calls.clone(), graph.clone());
            std::thread::spawn(move || {
                crate::ops::install_panic_hook();
                barrier.wait();
                for round in 0..rounds {
                    let n = items.len();
                    for j in 0..n {
                        // threads walk the items in different rotations: every type sees contended first use
                        let it = &items[(j + if round == 0 { 0 } else { t * 7 }) % n];
                        let ops = match dispatch(it["tid"].as_u64().unwrap() as usize) {
                            Some(o) => o,
                            None => continue,
                        };
                        let want_b = bytes_of(&it["b"]);
                        calls.fetch_add(2, std::sync::atomic::Ordering::Relaxed);
                        let enc = ops.encode(&it["v"]);
                        if !matches!(&enc[0], Outcome::Ok(x) if *x == want_b) || !matches!(&enc[3], Outcome::Ok(x) if *x == want_b) {
                            bad.lock().unwrap().push(json!({"thread": t, "round": round, "ty": ops.rust_name(), "what": "encode",
                                "spec": want_b, "impl": crate::ops::outcome_json(&enc[0], |x| json!(x))}));
                        }
                        let want_v = ops.canon(&it["dv"]).unwrap_or(Value::Null);
                        let dec = ops.decode_top(&want_b);
                        if !matches!(&dec, Outcome::Ok(x) if *x == want_v) {
                            bad.lock().unwrap().push(json!({"thread": t, "round": round, "ty": ops.rust_name(), "what": "decode",
                                "want": want_v, "impl": crate::ops::outcome_json(&dec, |x| x.clone())}));
                        }
                    }
                    if let Some(g) = graph.as_ref() {
                        // object numbering restarts with every call as well
                        let mut rep = crate::runner::Report::sink();
                        crate::graph::graph_case(g, dispatch, &mut rep);
                        calls.fetch_add(2, std::sync::atomic::Ordering::Relaxed);
                        if rep.findings > 0 {
                            bad.lock().unwrap().push(json!({"thread": t, "round": round, "what": "graph codec result differs"}));
                        }
                    }
                }
            })
        })
        .collect();
    let mut panicked = 0;
    for h in handles {
        if h.join().is_err() {
            panicked += 1;
        }
    }
    if let Some(t) = tracefile.as_mut() {
        let evs = t.stop();
        crate::trace::call_events(t, &evs);
        t.flush();
        *r.counts.entry("traced_events".into()).or_insert(0) += t.events;
    }
    *r.counts.entry("stress_calls".into()).or_insert(0) += calls.load(std::sync::atomic::Ordering::Relaxed);
    r.count("stress_trial");
    // the schedule in which all calls are at their deepest point at the same time
    if let Some(p) = case.get("parked").filter(|p| p.is_object()) {
        let depth = p["depth"].as_u64().unwrap_or(150);
        let deviations = crate::deep_case::parked_calls(threads, depth);
        *r.counts.entry("parked_calls".into()).or_insert(0) += (4 * threads) as u64;
        for d in deviations.into_iter().take(3) {
            r.finding("stress_parked", &["C18"], d);
        }
        // default expressions of FieldAdded steps are evaluated per call, in the calling thread
        let deviations = crate::deep_case::default_calls(threads);
        *r.counts.entry("default_calls".into()).or_insert(0) += (6 + 2 * threads) as u64;
        for d in deviations.into_iter().take(3) {
            r.finding("stress_defaults", &["C18"], d);
        }
    }
    if panicked > 0 {
        r.finding("stress_panic", &["C18"], json!({"threads_panicked": panicked}));
    }
    let bad = bad.lock().unwrap();
    for b in bad.iter().take(5) {
        r.finding("stress", &["C18"], b.clone());
    }
}
