//! C16: compressed blocks.  {"kind":"compress","contents":[{"name","gen","n","seed"}..],"levels":[..],
//!  "trace_out":path,"frames_out":path,"dense":bool}
//! Writes a trace of frame / read events (validated by TLC against Trace_Compressed.tla) and the frames
//! themselves (payload checked by an independent inflater in tools/check.py).
use crate::ops::guarded;
use crate::runner::{bytes_of, Dispatch, Report};
use bytes::BytesMut;
use desert_core::{BinaryInput, BinaryOutput, DeserializationContext, OwnedInput, SerializationContext, SliceInput};
use serde_json::{json, Value};
use std::io::Write;

/// deterministic contents; the same generators exist in tools/check.py
pub fn gen(kind: &str, n: usize, seed: u64) -> Vec<u8> {
    let mut x = seed.wrapping_mul(6364136223846793005).wrapping_add(1442695040888963407);
    let mut next = move || {
        x = x.wrapping_mul(6364136223846793005).wrapping_add(1442695040888963407);
        (x >> 33) as u8
    };
    match kind {
        "const" => vec![b'a'; n],
        "cycle" => (0..n).map(|i| (i % 7) as u8).collect(),
        "random" => (0..n).map(|_| next()).collect(),
        "mixed" => (0..n).map(|i| if (i / 1024) % 2 == 0 { next() } else { 0 }).collect(),
        other => panic!("generator {other}"),
    }
}

fn frame_on_all_sinks(d: &[u8], level: u32) -> Result<Vec<Vec<u8>>, String> {
    let opts = flate2_level(level);
    let mut a: Vec<u8> = Vec::new();
    a.write_compressed(d, opts).map_err(|e| e.to_string())?;
    let mut b = BytesMut::new();
    b.write_compressed(d, opts).map_err(|e| e.to_string())?;
    let mut c = SerializationContext::new(Vec::new());
    c.write_compressed(d, opts).map_err(|e| e.to_string())?;
    // the size calculator (alone and under a context) must count exactly the bytes the other sinks hold, at every level
    let mut sz = desert_core::SizeCalculator::new();
    sz.write_compressed(d, opts).map_err(|e| e.to_string())?;
    let mut csz = SerializationContext::new(desert_core::SizeCalculator::new());
    csz.write_compressed(d, opts).map_err(|e| e.to_string())?;
    let mut cb = SerializationContext::new(BytesMut::new());
    cb.write_compressed(d, opts).map_err(|e| e.to_string())?;
    Ok(vec![a, b.to_vec(), c.into_output(), cb.into_output().to_vec(), vec![0; sz.size()], vec![0; csz.into_output().size()]])
}
// the library takes flate2::Compression; dv depends on the same flate2 through desert_core's re-export-free API,
// so the level is passed through this helper
fn flate2_level(level: u32) -> flate2::Compression {
    flate2::Compression::new(level)
}

struct ReadRes {
    ok: bool,
    data: Vec<u8>,
    consumed: usize,
    maxreq: usize,
}
fn read_on(source: usize, b: &[u8]) -> Result<ReadRes, String> {
    read_on_filled(source, b, 0xA5)
}
/// `fill`: what fresh heap memory holds during the read (a block built only from the inflater's output does not
/// depend on it)
fn read_on_filled(source: usize, b: &[u8], fill: u8) -> Result<ReadRes, String> {
    crate::alloc::set_poison(fill);
    let r = read_on_inner(source, b);
    crate::alloc::set_poison(0);
    r
}
fn read_on_inner(source: usize, b: &[u8]) -> Result<ReadRes, String> {
    crate::runner::progress(&b[..b.len().min(64)]);
    guarded(|| {
        crate::alloc::reset();
        match source {
            0 => {
                let mut s = SliceInput::new(b);
                let r = s.read_compressed();
                let (m, _) = crate::alloc::snapshot();
                ReadRes { ok: r.is_ok(), data: r.unwrap_or_default(), consumed: s.pos, maxreq: m }
            }
            1 => {
                let mut s = OwnedInput::new(b.to_vec());
                crate::alloc::reset();
                let r = s.read_compressed();
                let (m, _) = crate::alloc::snapshot();
                let mut left = 0;
                while s.read_u8().is_ok() {
                    left += 1;
                }
                ReadRes { ok: r.is_ok(), data: r.unwrap_or_default(), consumed: b.len() - left, maxreq: m }
            }
            _ => {
                let mut s = DeserializationContext::new(b);
                let r = s.read_compressed();
                let (m, _) = crate::alloc::snapshot();
                let mut left = 0;
                while s.read_u8().is_ok() {
                    left += 1;
                }
                ReadRes { ok: r.is_ok(), data: r.unwrap_or_default(), consumed: b.len() - left, maxreq: m }
            }
        }
    })
}
/// bytes an inflater produces from the frame's payload before it stops (end of stream or error):
/// the "bytes actually produced" of the allocation bound when the read itself reports an error
fn produced_before_stop(frame: &[u8]) -> usize {
    use std::io::Read;
    let mut p = 0usize;
    let mut lens = [0u64; 2];
    for l in lens.iter_mut() {
        let mut shift = 0;
        loop {
            if p >= frame.len() {
                return 0;
            }
            let c = frame[p];
            p += 1;
            if shift < 35 {
                *l |= ((c & 0x7f) as u64) << shift;
            }
            shift += 7;
            if c < 128 || shift >= 35 {
                break;
            }
        }
    }
    let zlen = (lens[1] & 0xffff_ffff) as usize;
    if zlen > frame.len() - p {
        return 0;
    }
    let mut dec = flate2::read::DeflateDecoder::new(&frame[p..p + zlen]);
    let mut buf = [0u8; 8192];
    let mut total = 0usize;
    loop {
        match dec.read(&mut buf) {
            Ok(0) | Err(_) => return total,
            Ok(n) => total += n,
        }
    }
}

const SOURCES: [&str; 3] = ["SliceInput", "OwnedInput", "DeserializationContext"];

fn varu(mut x: u64) -> Vec<u8> {
    let mut out = Vec::new();
    loop {
        if x < 128 {
            out.push(x as u8);
            return out;
        }
        out.push((x % 128) as u8 + 128);
        x /= 128;
    }
}

/// a user codec that stores its payload as a compressed block through the context it is given
#[derive(Debug, PartialEq, Clone)]
pub struct Blob(pub Vec<u8>, pub u32);
impl desert_core::BinarySerializer for Blob {
    fn serialize<O: BinaryOutput>(&self, ctx: &mut SerializationContext<O>) -> desert_core::Result<()> {
        ctx.write_compressed(&self.0, flate2::Compression::new(self.1))
    }
}
impl desert_core::BinaryDeserializer for Blob {
    fn deserialize(ctx: &mut DeserializationContext<'_>) -> desert_core::Result<Self> {
        Ok(Blob(ctx.read_compressed()?, 0))
    }
}
impl crate::model::ModelType for Blob {
    fn from_model(_v: &Value) -> Self {
        Blob(vec![], 0)
    }
    fn to_model(&self) -> Value {
        json!(self.0)
    }
}

/// The frame is a value like any other: inside a tuple (headerless record) and inside chunk 1 of a record with a
/// header (written into the chunk's buffer, not past it) it is the frame the plain sinks produce, at its place.
fn blob_in_records(name: &str, d: &[u8], level: u32, frame: &[u8], r: &mut Report) {
    use crate::inchunk::InChunk;
    r.count("frame_in_record");
    let blob = Blob(d.to_vec(), level);
    let got = guarded(|| {
        let top = desert_core::serialize_to_byte_vec(&blob)?;
        let tup = desert_core::serialize_to_byte_vec(&(7u8, blob.clone(), 9u8))?;
        let chunk = desert_core::serialize_to_byte_vec(&InChunk { pre: 7u8, mid: blob.clone(), post: 9u8 })?;
        let back: InChunk<Blob> = desert_core::deserialize(&chunk)?;
        Ok::<_, desert_core::Error>((top, tup, chunk, back.mid.0 == d && back.pre == 7 && back.post == 9))
    });
    let mut var = Vec::new();
    var.write_var_i32(frame.len() as i32);
    let mut want_tup = vec![0u8, 7];
    want_tup.extend_from_slice(frame);
    want_tup.push(9);
    let mut want_chunk = vec![1u8, 4];          // version 1, chunk 0 = [pre, post] (2 bytes, zig-zag 4)
    want_chunk.extend_from_slice(&var);         // step 1 = FieldAdded: size of chunk 1
    want_chunk.extend_from_slice(&[7, 9]);
    want_chunk.extend_from_slice(frame);
    // truncation: every strict prefix of the record encodings is rejected (a cut inside or right after the frame too)
    if d.len() <= 300 {
        for (what, full) in [("tuple", &want_tup), ("chunk", &want_chunk)] {
            for k in 0..full.len() {
                r.count("frame_in_record_prefix");
                let res = guarded(|| {
                    if what == "tuple" {
                        desert_core::deserialize::<(u8, Blob, u8)>(&full[..k]).map(|_| ())
                    } else {
                        desert_core::deserialize::<InChunk<Blob>>(&full[..k]).map(|_| ())
                    }
                });
                if !matches!(res, Ok(Err(_))) {
                    r.finding("frame_in_record_prefix", &["C16", "C08"], json!({"content": name, "level": level, "holder": what, "cut": k, "of": full.len(),
                        "got": format!("{res:?}")}));
                    break;
                }
            }
        }
    }
    match got {
        Ok(Ok((top, tup, chunk, back))) if top == frame && tup == want_tup && chunk == want_chunk && back => {}
        other => r.finding("frame_in_record", &["C16"], json!({"content": name, "level": level,
            "what": "a compressed block written through a context inside a record is not the frame at its place",
            "got": match other { Ok(Ok((top, tup, chunk, back))) => json!({"top_ok": top == frame, "tuple_ok": tup == want_tup, "chunk_ok": chunk == want_chunk,
                                                                            "chunk_head": &chunk[..chunk.len().min(12)], "read_back": back}),
                                 Ok(Err(e)) => json!(e.to_string()), Err(p) => json!({"panic": p}) }})),
    }
}

pub fn compress_case(case: &Value, _d: Dispatch, r: &mut Report) {
    let mut trace = std::io::BufWriter::new(std::fs::File::create(case["trace_out"].as_str().unwrap()).expect("trace file"));
    let mut frames = std::io::BufWriter::new(std::fs::File::create(case["frames_out"].as_str().unwrap()).expect("frames file"));
    let dense = case["dense"].as_bool().unwrap_or(false);
    for c in case["contents"].as_array().unwrap() {
        let (name, kind, n, seed) = (c["name"].as_str().unwrap(), c["gen"].as_str().unwrap(), c["n"].as_u64().unwrap() as usize, c["seed"].as_u64().unwrap());
        let d = gen(kind, n, seed);
        for lv in case["levels"].as_array().unwrap() {
            let level = lv.as_u64().unwrap() as u32;
            r.count("frame");
            let fs = match guarded(|| frame_on_all_sinks(&d, level)) {
                Ok(Ok(fs)) => fs,
                other => {
                    r.finding("write_compressed", &["C16"], json!({"content": name, "level": level, "got": format!("{:?}", other.map(|x| x.map(|_| ())))}));
                    continue;
                }
            };
            if fs[4].len() != fs[0].len() || fs[5].len() != fs[0].len() {
                r.finding("size_calculator", &["C15", "C16"], json!({"content": name, "level": level, "written": fs[0].len(), "calculated": [fs[4].len(), fs[5].len()]}));
            }
            if fs[1] != fs[0] || fs[2] != fs[0] || fs[3] != fs[0] {
                r.finding("sinks", &["C16", "C15"], json!({"content": name, "level": level, "lens": [fs[0].len(), fs[1].len(), fs[2].len(), fs[3].len()]}));
            }
            let f = &fs[0];
            if d.len() <= 70000 {
                blob_in_records(name, &d, level, f, r);
            }
            writeln!(trace, "{}", json!({"ev": "frame", "dlen": d.len(), "total": f.len(), "head": &f[..f.len().min(10)]})).unwrap();
            writeln!(frames, "{}", json!({"name": name, "gen": kind, "n": n, "seed": seed, "level": level,
                "frame": f.iter().map(|b| format!("{b:02x}")).collect::<String>()})).unwrap();
            // read back with a suffix on every source
            let mut fs2 = f.clone();
            fs2.extend([0xAB, 0x80]);
            for s in 0..3 {
                r.count("read_valid");
                match read_on(s, &fs2) {
                    Ok(res) => {
                        writeln!(trace, "{}", json!({"ev": "read", "kind": "valid", "dlen": d.len(), "frame": f.len(), "suffix": 2,
                            "ok": res.ok, "consumed": res.consumed, "produced": res.data.len(), "maxreq": res.maxreq})).unwrap();
                        if !res.ok || res.data != d {
                            r.finding("read_valid", &["C16"], json!({"content": name, "level": level, "source": SOURCES[s], "ok": res.ok, "produced": res.data.len()}));
                        }
                    }
                    Err(p) => r.finding("read_valid", &["C16", "C05"], json!({"content": name, "level": level, "source": SOURCES[s], "panic": p})),
                }
            }
            // every strict prefix (sampled inside large payloads)
            let n_f = f.len();
            for k in 0..n_f {
                let near_edge = k < 48 || k + 40 >= n_f;
                // (at most ~4000 interior cuts per frame: every cut of a large frame copies it)
                if !(near_edge || k % std::cmp::max(if dense { 7 } else { 64 }, n_f / 4000) == 0) {
                    continue;
                }
                let s = k % 3;
                r.count("read_cut");
                match read_on(s, &f[..k]) {
                    Ok(res) => {
                        if k % 16 == 0 || near_edge {
                            writeln!(trace, "{}", json!({"ev": "read", "kind": "cut", "dlen": d.len(), "frame": k, "suffix": 0,
                                "ok": res.ok, "consumed": res.consumed, "produced": res.data.len(), "maxreq": res.maxreq})).unwrap();
                        }
                        if res.ok {
                            r.finding("read_cut", &["C16"], json!({"content": name, "level": level, "cut": k, "of": n_f, "source": SOURCES[s]}));
                        }
                    }
                    Err(p) => r.finding("read_cut", &["C16", "C05"], json!({"content": name, "level": level, "cut": k, "panic": p})),
                }
            }
            // damage: bit flips in the first 64 bytes, header rewrites
            let mut damaged: Vec<Vec<u8>> = Vec::new();
            for i in 0..n_f.min(64) {
                for bit in 0..8 {
                    if (i * 8 + bit) % if dense { 1 } else { 3 } == 0 {
                        let mut x = f.clone();
                        x[i] ^= 1 << bit;
                        damaged.push(x);
                    }
                }
            }
            // the payload as the frame itself delimits it (two varints, then the rest)
            let mut p = 0usize;
            for _ in 0..2 {
                while p < n_f && f[p] >= 128 {
                    p += 1;
                }
                p += 1;
            }
            let payload = &f[p.min(n_f)..];
            // level 0 writes stored blocks: the specification itself inflates those (Trace_Compressed!StoredEvent)
            if level == 0 && d.len() <= 4096 {
                writeln!(trace, "{}", json!({"ev": "stored", "d": d, "z": payload})).unwrap();
            }
            // announced lengths: small, off by one, just above the reservation cap, plausible multiples of
            // the compressed length (an inflater can expand by at most ~1032:1), and the extremes
            let cl = payload.len() as u64;
            for new_d in [0u64, 1, d.len() as u64 + 1, d.len().saturating_sub(1) as u64, 65536, 65537, 100_000, 1 << 20, 1 << 24,
                          cl * 100, cl * 1000, cl * 1032, cl * 1033, 0x7FFF_FFFF, 0xFFFF_FFFF] {
                let new_d = new_d.min(0xFFFF_FFFF);
                for new_z in [payload.len() as u64, 0, 1, payload.len() as u64 + 1, payload.len().saturating_sub(1) as u64, 65536, 0xFFFF_FFFF] {
                    let mut x = varu(new_d);
                    x.extend(varu(new_z));
                    x.extend(payload);
                    damaged.push(x);
                }
            }
            for (j, x) in damaged.iter().enumerate() {
                let s = j % 3;
                r.count("read_damaged");
                match read_on(s, x) {
                    Ok(res) => {
                        let produced = if res.ok { res.data.len() } else { produced_before_stop(x) };
                        let limit = std::cmp::max(65536, 2 * produced);
                        writeln!(trace, "{}", json!({"ev": "read", "kind": "damaged", "dlen": d.len(), "frame": x.len(), "suffix": 0,
                            "ok": res.ok, "consumed": res.consumed, "produced": produced, "maxreq": res.maxreq})).unwrap();
                        if res.ok && res.data.len() <= (1 << 20) {
                            r.count("read_damaged_twice_with_different_fresh_memory");
                            let again = read_on_filled(s, x, 0x5A);
                            if !matches!(&again, Ok(a) if a.ok && a.data == res.data) {
                                r.finding("uninit", &["C05", "C19"], json!({"content": name, "level": level, "source": SOURCES[s], "input_head": &x[..x.len().min(16)],
                                    "what": "the block returned for a damaged frame depends on the contents of fresh heap memory", "len": res.data.len()}));
                            }
                        }
                        if res.maxreq > limit {
                            r.finding("alloc", &["C16", "C05"], json!({"content": name, "level": level, "source": SOURCES[s], "input_head": &x[..x.len().min(16)],
                                "largest_request": res.maxreq, "produced": produced}));
                        }
                    }
                    Err(p) => r.finding("read_damaged", &["C16", "C05"], json!({"content": name, "level": level, "input_head": &x[..x.len().min(16)], "panic": p})),
                }
            }
        }
    }
    trace.flush().unwrap();
    frames.flush().unwrap();
}

/// {"kind":"stored","cases":[{"d":[..],"z":[..],"blocks":[[announced, bytes],..]},..]}: compressed blocks whose payload
/// is a stream of stored blocks built by the specification (MC_Deflate): splits and padding bits the library's writer
/// never produces, and announced lengths that disagree with the content.  Every source must return the content and
/// stop after the block.
pub fn stored_case(case: &Value, _d: Dispatch, r: &mut Report) {
    for c in case["cases"].as_array().unwrap() {
        let d = bytes_of(&c["d"]);
        for blk in c["blocks"].as_array().unwrap() {
            let mut b = bytes_of(&blk[1]);
            let n = b.len();
            let agrees = blk[0][0].as_u64() == Some(0) && blk[0][1].as_u64() == Some(d.len() as u64);
            b.extend([0xAB, 0x80]);
            for s in 0..3 {
                r.count("stored_block");
                match read_on(s, &b) {
                    Ok(res) if res.ok && res.data == d && res.consumed == n => {}
                    // a header that announces another length than the content has: C16 allows any Ok or Err; the
                    // specification models the pinned behaviour (the announcement is a hint, L12) - a deviation is
                    // reported as a note outside the listed properties, never as a verdict
                    Ok(res) if !agrees => r.finding("stored_block_announced", &["X-L12"], json!({"content": d.len(), "announced": blk[0], "source": SOURCES[s],
                        "ok": res.ok, "produced": res.data.len(), "consumed": res.consumed, "block_len": n})),
                    Ok(res) => r.finding("stored_block", &["C16"], json!({"content": d.len(), "splits": c["cuts"], "padding": c["pads"], "announced": blk[0], "source": SOURCES[s],
                        "block_head": &b[..b.len().min(24)], "ok": res.ok, "produced": res.data.len(), "consumed": res.consumed, "block_len": n})),
                    Err(p) => r.finding("stored_block", &["C16", "C05"], json!({"content": d.len(), "splits": c["cuts"], "announced": blk[0], "panic": p})),
                }
            }
        }
    }
}
