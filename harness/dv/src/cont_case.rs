//! C12: kinds "xcont" (source container -> bytes -> target container), "ucont" (unknown-length form -> target),
//! "seqs" (the public sequence writers).
use crate::ops::Outcome;
use crate::runner::{bytes_of, Dispatch, Report};
use serde_json::{json, Value};

fn sorted_items(v: &Value) -> Vec<String> {
    let mut xs: Vec<String> = v.as_array().map(|a| a[1..].iter().map(|x| x.to_string()).collect()).unwrap_or_default();
    xs.sort();
    xs
}

fn check_dec(ops: &dyn crate::ops::TypeOps, b: &[u8], exp: &[Value], as_multiset: bool, what: &str, r: &mut Report, ctx: Value) {
    r.count(what);
    let got = ops.decode(b);
    let ok = match (&got, exp[0].as_str().unwrap()) {
        (Outcome::Ok(d), "ok") => match ops.canon(&exp[1]) {
            Ok(want) => d.left == 0 && if as_multiset { sorted_items(&d.v) == sorted_items(&want) } else { d.v == want },
            Err(_) => true,
        },
        (Outcome::Err(..), "err") => true,
        _ => false,
    };
    if !ok {
        let mut p = vec!["C12"];
        if got.is_panic() {
            p.push("C05");
        }
        r.finding(what, &p, json!({"target": ops.rust_name(), "bytes": b, "want": exp, "ctx": ctx,
            "got": crate::ops::outcome_json(&got, |d| json!({"v": d.v, "left": d.left}))}));
    }
}

/// {"kind":"xcont","src":tid,"dst":tid,"v":<source value>,"b":[..],"exp":["ok",v]|["err"],"src_unordered":bool,"dst_ordered":bool}
pub fn xcont_case(case: &Value, dispatch: Dispatch, r: &mut Report) {
    let (src, dst) = match (dispatch(case["src"].as_u64().unwrap() as usize), dispatch(case["dst"].as_u64().unwrap() as usize)) {
        (Some(s), Some(d)) => (s, d),
        _ => {
            r.skip("type not compiled");
            return;
        }
    };
    let b = bytes_of(&case["b"]);
    let exp = case["exp"].as_array().unwrap();
    let src_unordered = case["src_unordered"].as_bool().unwrap_or(false);
    let dst_ordered = case["dst_ordered"].as_bool().unwrap_or(true);
    r.count("xcont_enc");
    let enc = src.encode(&case["v"]);
    match &enc[0] {
        Outcome::Ok(real) => {
            if !src_unordered && *real != b {
                r.finding("xcont_enc", &["C12", "C04"], json!({"source": src.rust_name(), "v": case["v"], "spec": b, "impl": real}));
            }
            // what the source really wrote, read as the target
            check_dec(dst, real, exp, src_unordered && dst_ordered, "xcont_dec", r, json!({"source": src.rust_name()}));
        }
        other => r.finding("xcont_enc", &["C12"], json!({"source": src.rust_name(), "v": case["v"], "impl": crate::ops::outcome_json(other, |x| json!(x))})),
    }
    if !src_unordered {
        check_dec(dst, &b, exp, false, "xcont_dec_spec", r, json!({"source": src.rust_name()}));
    }
}

/// {"kind":"ucont","dst":tid,"b":[..],"exp":..}: the unknown-length form read as the target
pub fn ucont_case(case: &Value, dispatch: Dispatch, r: &mut Report) {
    if let Some(dst) = dispatch(case["dst"].as_u64().unwrap() as usize) {
        let b = bytes_of(&case["b"]);
        check_dec(dst, &b, case["exp"].as_array().unwrap(), false, "ucont_dec", r, json!("unknown-length form"));
    }
}

/// {"kind":"seqs","elem":tid,"xs":[..],"known":[..],"unknown":[..]}: serialize_iterator (both hint kinds) and slices
pub fn seqs_case(case: &Value, dispatch: Dispatch, r: &mut Report) {
    if let Some(e) = dispatch(case["elem"].as_u64().unwrap() as usize) {
        let known = bytes_of(&case["known"]);
        let unknown = bytes_of(&case["unknown"]);
        let vec_ops = case.get("vec").and_then(|v| v.as_u64()).and_then(|t| dispatch(t as usize));
        for (name, got) in e.encode_as_sequences(case["xs"].as_array().unwrap()) {
            // whatever form the writer chose: the bytes, followed by other data, decode to the items written
            if let (Some(vops), Outcome::Ok(real)) = (vec_ops, &got) {
                r.count("seqs_dec");
                let items: Vec<Value> = case["xs"].as_array().unwrap().iter().skip(if name == "iter_dropping" { 1 } else { 0 }).cloned().collect();
                let mut model = vec![json!(8)];
                model.extend(items);
                let mut more = real.clone();
                more.extend_from_slice(&[0xDE, 0xAD]);
                match (vops.canon(&Value::Array(model)), vops.decode(&more)) {
                    (Ok(want), Outcome::Ok(d)) if d.v == want && d.left == 2 => {}
                    (Err(_), _) => r.skip("items outside the glue's domain"),
                    (_, other) => r.finding("seqs_dec", &["C12", "C07"], json!({"elem": e.rust_name(), "writer": name, "xs": case["xs"], "bytes": real,
                        "got": crate::ops::outcome_json(&other, |d| json!({"v": d.v, "left": d.left}))})),
                }
            }
            if name == "iter_dropping" {
                continue;
            }
            r.count("seqs");
            // a filtered iterator over nothing has the exact size hint (0, Some(0)): known-length form
            let n = case["xs"].as_array().map(|a| a.len()).unwrap_or(0);
            let want = if name == "iter_unknown" && n > 0 { &unknown } else { &known };
            if !matches!(&got, Outcome::Ok(x) if x == want) {
                let mut p = vec!["C12", "C04"];
                if got.is_panic() {
                    p.push("C17");
                }
                r.finding("seqs", &p, json!({"elem": e.rust_name(), "writer": name, "xs": case["xs"], "spec": want,
                    "impl": crate::ops::outcome_json(&got, |x| json!(x))}));
            }
        }
    }
}
