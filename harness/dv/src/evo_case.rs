//! kind = "evo": data written by one definition, read by another (C03; C07/C08 for evolved records).
//!
//! {"kind":"evo","wt":tid,"rt":tid,"v":<value of wt>,"b":[..],
//!  "exp":["ok",<value of rt>] | [<error class>,<field name bytes>],
//!  "top":bool,"v1":bool}       top: not embedded; v1: the data carries a header (stored version >= 1)
use crate::codec_case::expect_dec;
use crate::ops::Outcome;
use crate::runner::{bytes_of, Dispatch, Report};
use serde_json::{json, Value};

fn props_enc(case: &Value) -> Vec<&str> {
    let mut p: Vec<&str> = case.get("props").and_then(|p| p.as_array()).map(|a| a.iter().filter_map(|x| x.as_str()).collect()).unwrap_or_else(|| vec!["C03"]);
    if case["tr"].as_bool().unwrap_or(false) {
        p.push("C14");
    }
    p
}

pub fn evo_case(case: &Value, dispatch: Dispatch, r: &mut Report) {
    let (wops, rops) = match (
        dispatch(case["wt"].as_u64().unwrap() as usize),
        dispatch(case["rt"].as_u64().unwrap() as usize),
    ) {
        (Some(w), Some(rd)) => (w, rd),
        _ => {
            r.skip("type not compiled");
            return;
        }
    };
    let v = &case["v"];
    let b = bytes_of(&case["b"]);
    let top = case["top"].as_bool().unwrap_or(true);
    let v1 = case["v1"].as_bool().unwrap_or(false);
    let same = case["wt"] == case["rt"];

    // --- implementation trace of the record mechanism: one writer run, then one reader run on its bytes
    if let Some(path) = case.get("atrace").and_then(|p| p.as_str()) {
        let tcase = json!({"trace": path});
        if let Some(mut t) = crate::trace::TraceFile::open(&tcase) {
            t.line(json!({"ev": "case", "w": case["wdecl"], "r": case["rdecl"]}));
            t.start();
            let enc = crate::ops::stream_encode(&[(wops, v)]);
            let evs = t.stop();
            crate::trace::adt_events(&mut t, &evs);
            t.line(json!({"ev": "wend", "ok": enc.is_ok() as i32}));
            // the same run seen as a behaviour of the writer machine (Trace_Writer.tla)
            if let Some(wpath) = case.get("wtrace").and_then(|p| p.as_str()) {
                if let Some(mut wt) = crate::trace::TraceFile::open(&json!({"trace": wpath})) {
                    crate::trace::writer_events(&mut wt, &evs);
                    wt.line(json!({"ev": "wend", "ok": enc.is_ok() as i32, "len": match &enc { Outcome::Ok(b) => b.len(), _ => 0 }}));
                    wt.flush();
                }
            }
            if let Outcome::Ok(real) = &enc {
                t.start();
                let dec = rops.decode_top(real);
                let evs = t.stop();
                crate::trace::adt_events(&mut t, &evs);
                t.line(json!({"ev": "rend", "ok": dec.is_ok() as i32}));
            }
            t.flush();
            r.count("adt_traced");
        }
    }

    // the writer produces the specification's bytes
    r.count("evo_enc");
    let encs = wops.encode(v);
    match &encs[0] {
        Outcome::Ok(real) if *real == b => {}
        other => {
            let mut props = vec!["C04", "C02"];
            props.extend(props_enc(case));
            if other.is_panic() {
                props.push("C17");
            }
            r.finding(
                "evo_enc",
                &props,
                json!({"ty": wops.rust_name(), "v": v, "spec": b, "impl": crate::ops::outcome_json(other, |x| json!(x))}),
            );
        }
    }

    let exp = case["exp"].as_array().expect("exp");
    let given: Vec<&str> = case.get("props").and_then(|p| p.as_array()).map(|a| a.iter().filter_map(|x| x.as_str()).collect()).unwrap_or_default();
    // a definition with transient fields on either side: what the reader puts there is C14's business as well
    let transient = case["tr"].as_bool().unwrap_or(false) || case["rtr"].as_bool().unwrap_or(false);
    let props: &[&str] = if !given.is_empty() {
        &given
    } else {
        match (same, transient) {
            (true, true) => &["C03", "C02", "C14"],
            (true, false) => &["C03", "C02"],
            (false, true) => &["C03", "C14"],
            (false, false) => &["C03"],
        }
    };
    if exp[0] == "ok" {
        let want = match rops.canon(&exp[1]) {
            Ok(w) => w,
            Err(_) => {
                r.skip("expected value outside the glue's domain");
                return;
            }
        };
        r.count("evo_dec");
        let got = rops.decode(&b);
        let ok = match &got {
            Outcome::Ok(d) => d.v == want && (d.left == 0 || (top && !v1)),
            _ => false,
        };
        if !ok {
            let mut p = props.to_vec();
            if got.is_panic() {
                p.push("C05");
            }
            r.finding(
                "evo_dec",
                &p,
                json!({"wt": wops.rust_name(), "rt": rops.rust_name(), "bytes": b, "want": want,
                       "got": crate::ops::outcome_json(&got, |d| json!({"v": d.v, "left": d.left}))}),
            );
        }
        // C07: records with a header are skipped in full by every version
        if v1 && top {
            for s in [vec![0u8], vec![1, 0], vec![255]].iter().chain(crate::ops::followers().iter()) {
                let mut bs = b.clone();
                bs.extend(s);
                expect_dec(rops, &bs, &want, s.len(), "evo_suffix", &["C07"], r);
            }
        }
    } else {
        r.count("evo_err");
        let want_class = exp[0].as_str().unwrap();
        let want_field = String::from_utf8(bytes_of(&exp[1])).unwrap();
        let got = rops.decode(&b);
        let ok = matches!(&got, Outcome::Err(c, d) if *c == want_class && (want_field == "*" || *d == want_field));
        if !ok {
            let mut p = props.to_vec();
            if got.is_panic() {
                p.push("C05");
            }
            r.finding(
                "evo_err",
                &p,
                json!({"wt": wops.rust_name(), "rt": rops.rust_name(), "bytes": b, "want": [want_class, want_field],
                       "got": crate::ops::outcome_json(&got, |d| json!({"v": d.v, "left": d.left}))}),
            );
        }
    }

    // C08: with a header every strict prefix is rejected by every version
    if v1 && top {
        for k in 0..b.len() {
            r.count("evo_prefix");
            let got = rops.decode(&b[..k]);
            if !got.is_err() {
                let p: &[&str] = if got.is_panic() { &["C08", "C05"] } else { &["C08"] };
                r.finding(
                    "evo_prefix",
                    p,
                    json!({"rt": rops.rust_name(), "full": b, "cut": k,
                           "got": crate::ops::outcome_json(&got, |d| json!({"v": d.v, "left": d.left}))}),
                );
            }
        }
    }
}
