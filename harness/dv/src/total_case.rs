//! C17: kinds "charsweep" (every Unicode scalar value) and "lengths" (counts that do not fit).
use crate::ops::{errclass, guarded};
use crate::runner::{Dispatch, Report};
use desert_core::{serialize_iterator, serialize_to_byte_vec, SerializationContext};
use serde_json::{json, Value};

/// {"kind":"charsweep"}: all 1 112 064 scalar values against the rule the specification states
/// (encodable iff <= U+FFFF; bytes = the 16-bit code unit, big-endian)
pub fn charsweep_case(_case: &Value, _d: Dispatch, r: &mut Report) {
    let mut bad = 0;
    for cp in 0u32..=0x10FFFF {
        let c = match char::from_u32(cp) {
            Some(c) => c,
            None => continue,
        };
        r.count("char");
        let got = guarded(|| serialize_to_byte_vec(&c));
        let ok = match &got {
            Ok(Ok(b)) => cp <= 0xFFFF && *b == vec![(cp >> 8) as u8, (cp & 255) as u8],
            Ok(Err(e)) => cp > 0xFFFF && errclass(e).0 == "UnsupportedChar",
            Err(_) => false,
        };
        if !ok && bad < 5 {
            bad += 1;
            r.finding("char", &["C17"], json!({"code_point": cp, "got": match &got { Ok(Ok(b)) => json!(b), Ok(Err(e)) => json!(e.to_string()), Err(p) => json!({"panic": p}) }}));
        }
    }
}

/// an iterator that announces n items and yields none: only the count is written
struct Announce(usize);
impl Iterator for Announce {
    type Item = u8;
    fn next(&mut self) -> Option<u8> {
        None
    }
    fn size_hint(&self) -> (usize, Option<usize>) {
        (self.0, Some(self.0))
    }
}

fn count_of(class: &str) -> usize {
    match class {
        "i32max" => i32::MAX as usize,
        "i32max+1" => i32::MAX as usize + 1,
        "u32max" => u32::MAX as usize,
        _ => u32::MAX as usize + 1,
    }
}

/// {"kind":"lengths","cases":[[kind,class,outcome],..],"big":bool}
pub fn lengths_case(case: &Value, _d: Dispatch, r: &mut Report) {
    let big = case["big"].as_bool().unwrap_or(false);
    for c in case["cases"].as_array().unwrap() {
        let (kind, class, want) = (c[0].as_str().unwrap(), c[1].as_str().unwrap(), c[2].as_str().unwrap());
        let n = count_of(class);
        if kind == "zigzag" {
            // the sequence writer with an exact size hint of n
            r.count("length_iter");
            let got = guarded(|| {
                let mut ctx = SerializationContext::new(Vec::new());
                serialize_iterator(&mut Announce(n), &mut ctx).map(|_| ctx.into_output())
            });
            let ok = match &got {
                Ok(Ok(b)) => want == "ok" && *b == vec![0xfe, 0xff, 0xff, 0xff, 0x0f],
                Ok(Err(e)) => want != "ok" && errclass(e).0 == want,
                Err(_) => false,
            };
            if !ok {
                r.finding("length_iter", &["C17"], json!({"count": n, "want": want, "got": match &got { Ok(Ok(b)) => json!(b), Ok(Err(e)) => json!(e.to_string()), Err(p) => json!({"panic": p}) }}));
            }
            // a string of n bytes: the length check precedes the copy (thorough only: n bytes of zero pages)
            if big && want != "ok" && class == "i32max+1" {
                r.count("length_string");
                let s = String::from_utf8(vec![0u8; n]).unwrap();
                let got = guarded(|| serialize_to_byte_vec(&s));
                if !matches!(&got, Ok(Err(e)) if errclass(e).0 == want) {
                    r.finding("length_string", &["C17"], json!({"len": n, "want": want, "got": match &got { Ok(Ok(b)) => json!(b.len()), Ok(Err(e)) => json!(e.to_string()), Err(p) => json!({"panic": p}) }}));
                }
            }
        } else if big && want != "ok" {
            // a byte vector of n bytes (zero pages; the check precedes the copy)
            r.count("length_bytes");
            let v = vec![0u8; n];
            let got = guarded(|| serialize_to_byte_vec(&v));
            if !matches!(&got, Ok(Err(e)) if errclass(e).0 == want) {
                r.finding("length_bytes", &["C17"], json!({"len": n, "want": want, "got": match &got { Ok(Ok(b)) => json!(b.len()), Ok(Err(e)) => json!(e.to_string()), Err(p) => json!({"panic": p}) }}));
            }
        }
    }
}
