//! C17: kinds "charsweep" (every Unicode scalar value) and "lengths" (counts that do not fit).
use crate::ops::{errclass, guarded};
use crate::runner::{Dispatch, Report};
use desert_core::{serialize_iterator, serialize_to_byte_vec, SerializationContext};
use serde_json::{json, Value};

/// {"kind":"charsweep"}: all 1 112 064 scalar values against the rule the specification states
/// (encodable iff <= U+FFFF; bytes = the 16-bit code unit, big-endian)
pub fn charsweep_case(_case: &Value, _d: Dispatch, r: &mut Report) {
    let mut bad = 0;
    for cp in 0u32..=0x10FFFF {
        let c = match char::from_u32(cp) {
            Some(c) => c,
            None => continue,
        };
        r.count("char");
        let got = guarded(|| serialize_to_byte_vec(&c));
        let ok = match &got {
            Ok(Ok(b)) => cp <= 0xFFFF && *b == vec![(cp >> 8) as u8, (cp & 255) as u8],
            Ok(Err(e)) => cp > 0xFFFF && errclass(e).0 == "UnsupportedChar",
            Err(_) => false,
        };
        if !ok && bad < 5 {
            bad += 1;
            r.finding("char", &["C17"], json!({"code_point": cp, "got": match &got { Ok(Ok(b)) => json!(b), Ok(Err(e)) => json!(e.to_string()), Err(p) => json!({"panic": p}) }}));
        }
    }
}

/// an iterator that announces n items and yields none: only the count is written
struct Announce(usize);
impl Iterator for Announce {
    type Item = u8;
    fn next(&mut self) -> Option<u8> {
        None
    }
    fn size_hint(&self) -> (usize, Option<usize>) {
        (self.0, Some(self.0))
    }
}

/// an iterator of the items 1..=n that reports the given (truthful) size hint
struct Hinted {
    n: u8,
    next: u8,
    hint: (usize, Option<usize>),
}
impl Iterator for Hinted {
    type Item = u8;
    fn next(&mut self) -> Option<u8> {
        if self.next < self.n {
            self.next += 1;
            Some(self.next)
        } else {
            None
        }
    }
    fn size_hint(&self) -> (usize, Option<usize>) {
        self.hint
    }
}
struct HintedValue(u8, (usize, Option<usize>));
impl desert_core::BinarySerializer for HintedValue {
    fn serialize<O: desert_core::BinaryOutput>(&self, ctx: &mut SerializationContext<O>) -> desert_core::Result<()> {
        serialize_iterator(&mut Hinted { n: self.0, next: 0, hint: self.1 }, ctx)
    }
}

/// hints: [[[min, kind, max], n, bytes], ..] - the form the size hint selects and nothing else (MC_EncTotal!HintBytes)
fn hints(cases: &[Value], r: &mut Report) {
    for c in cases {
        let h = &c[0];
        let min = h[0].as_u64().unwrap() as usize;
        let max = match h[1].as_str().unwrap() {
            "none" => None,
            "some" => Some(h[2].as_u64().unwrap() as usize),
            "usizeMax" => Some(usize::MAX),
            "2^31" => Some(1usize << 31),
            "2^32" => Some(1usize << 32),
            _ => Some(usize::MAX - 1),
        };
        let n = c[1].as_u64().unwrap() as u8;
        let want = crate::runner::bytes_of(&c[2]);
        let v = HintedValue(n, (min, max));
        let runs: [(&str, Box<dyn Fn() -> desert_core::Result<Vec<u8>> + '_>); 4] = [
            ("serialize_to_byte_vec", Box::new(|| serialize_to_byte_vec(&v))),
            ("serialize_to_bytes", Box::new(|| desert_core::serialize_to_bytes(&v).map(|b| b.to_vec()))),
            ("context over a used Vec", Box::new(|| {
                let mut ctx = SerializationContext::new(vec![0xEEu8; 3]);
                desert_core::BinarySerializer::serialize(&v, &mut ctx).map(|_| ctx.into_output()[3..].to_vec())
            })),
            ("inside a tuple", Box::new(|| serialize_to_byte_vec(&(7u8, HintedValueRef(&v))).map(|b| b[2..].to_vec()))),
        ];
        for (name, run) in runs.iter() {
            r.count("size_hint");
            let got = guarded(|| run());
            if !matches!(&got, Ok(Ok(b)) if *b == want) {
                r.finding("size_hint", &["C17", "C07"], json!({"hint": h, "items": n, "entry": name, "want": want,
                    "got": match &got { Ok(Ok(b)) => json!(b), Ok(Err(e)) => json!(e.to_string()), Err(p) => json!({"panic": p}) }}));
            }
        }
    }
}
struct HintedValueRef<'a>(&'a HintedValue);
impl desert_core::BinarySerializer for HintedValueRef<'_> {
    fn serialize<O: desert_core::BinaryOutput>(&self, ctx: &mut SerializationContext<O>) -> desert_core::Result<()> {
        desert_core::BinarySerializer::serialize(self.0, ctx)
    }
}

fn count_of(class: &str) -> usize {
    match class {
        "i32max" => i32::MAX as usize,
        "i32max+1" => i32::MAX as usize + 1,
        "u32max" => u32::MAX as usize,
        _ => u32::MAX as usize + 1,
    }
}

/// {"kind":"lengths","cases":[[kind,class,outcome],..],"big":bool}
pub fn lengths_case(case: &Value, _d: Dispatch, r: &mut Report) {
    let big = case["big"].as_bool().unwrap_or(false);
    if let Some(h) = case["hints"].as_array() {
        hints(h, r);
    }
    for c in case["cases"].as_array().unwrap() {
        let (kind, class, want) = (c[0].as_str().unwrap(), c[1].as_str().unwrap(), c[2].as_str().unwrap());
        let n = count_of(class);
        if kind == "zigzag" {
            // the sequence writer with an exact size hint of n
            r.count("length_iter");
            let got = guarded(|| {
                let mut ctx = SerializationContext::new(Vec::new());
                serialize_iterator(&mut Announce(n), &mut ctx).map(|_| ctx.into_output())
            });
            let ok = match &got {
                Ok(Ok(b)) => want == "ok" && *b == vec![0xfe, 0xff, 0xff, 0xff, 0x0f],
                Ok(Err(e)) => want != "ok" && errclass(e).0 == want,
                Err(_) => false,
            };
            if !ok {
                r.finding("length_iter", &["C17"], json!({"count": n, "want": want, "got": match &got { Ok(Ok(b)) => json!(b), Ok(Err(e)) => json!(e.to_string()), Err(p) => json!({"panic": p}) }}));
            }
            // a string of n bytes: the length check precedes the copy (thorough only: n bytes of zero pages)
            if big && want != "ok" && class == "i32max+1" {
                r.count("length_string");
                let s = String::from_utf8(vec![0u8; n]).unwrap();
                let got = guarded(|| serialize_to_byte_vec(&s));
                if !matches!(&got, Ok(Err(e)) if errclass(e).0 == want) {
                    r.finding("length_string", &["C17"], json!({"len": n, "want": want, "got": match &got { Ok(Ok(b)) => json!(b.len()), Ok(Err(e)) => json!(e.to_string()), Err(p) => json!({"panic": p}) }}));
                }
            }
        } else if big && want != "ok" {
            // a byte vector of n bytes (zero pages; the check precedes the copy)
            r.count("length_bytes");
            let v = vec![0u8; n];
            let got = guarded(|| serialize_to_byte_vec(&v));
            if !matches!(&got, Ok(Err(e)) if errclass(e).0 == want) {
                r.finding("length_bytes", &["C17"], json!({"len": n, "want": want, "got": match &got { Ok(Ok(b)) => json!(b.len()), Ok(Err(e)) => json!(e.to_string()), Err(p) => json!({"panic": p}) }}));
            }
        }
    }
}
