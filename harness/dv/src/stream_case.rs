//! kind = "stream": several values written through ONE context and read back through ONE context.
//!
//! {"kind":"stream","tids":[..],"vs":[<value>..] | null,"b":[..],"exp":["ok"] | ["err",class],"props":[..]}
//! With "vs": encode must give "b" and decoding "b" must give "vs".  Without: decode-only with the expected outcome.
use crate::ops::{stream_decode, stream_encode, Outcome, TypeOps};
use crate::runner::{bytes_of, Dispatch, Report};
use serde_json::{json, Value};

pub fn stream_case(case: &Value, dispatch: Dispatch, r: &mut Report) {
    let mut types: Vec<&dyn TypeOps> = Vec::new();
    for t in case["tids"].as_array().unwrap() {
        match dispatch(t.as_u64().unwrap() as usize) {
            Some(o) => types.push(o),
            None => {
                r.skip("type not compiled");
                return;
            }
        }
    }
    let props: Vec<&str> = case["props"].as_array().map(|a| a.iter().filter_map(|x| x.as_str()).collect()).unwrap_or_default();
    let b = bytes_of(&case["b"]);
    if let (Some(vs), Some(mut t)) = (case["vs"].as_array(), crate::trace::TraceFile::open(case)) {
        // writer run, then reader run on what the writer produced: both tables as the hooks saw them
        let items: Vec<(&dyn TypeOps, &Value)> = types.iter().cloned().zip(vs.iter()).collect();
        t.line(json!({"ev": "begin", "side": "w"}));
        t.start();
        let enc = stream_encode(&items);
        let evs = t.stop();
        crate::trace::table_events(&mut t, &evs);
        t.line(json!({"ev": "end", "side": "w", "ok": enc.is_ok() as i32}));
        if let Outcome::Ok(real) = &enc {
            t.line(json!({"ev": "begin", "side": "r"}));
            t.start();
            let dec = stream_decode(&types, real);
            let evs = t.stop();
            crate::trace::table_events(&mut t, &evs);
            t.line(json!({"ev": "end", "side": "r", "ok": dec.is_ok() as i32}));
        }
        t.flush();
        r.count("traced_streams");
    }
    if let Some(vs) = case["vs"].as_array() {
        r.count("stream_enc");
        let items: Vec<(&dyn TypeOps, &Value)> = types.iter().cloned().zip(vs.iter()).collect();
        let got = stream_encode(&items);
        if !matches!(&got, Outcome::Ok(x) if *x == b) {
            let mut p = props.clone();
            if got.is_panic() {
                p.push("C17");
            }
            r.finding("stream_enc", &p, json!({"vs": vs, "spec": b, "impl": crate::ops::outcome_json(&got, |x| json!(x))}));
        }
        r.count("stream_dec");
        let want: Vec<Value> = types.iter().zip(vs.iter()).map(|(t, v)| t.canon(v).unwrap_or(Value::Null)).collect();
        let got = stream_decode(&types, &b);
        if !matches!(&got, Outcome::Ok((x, 0)) if *x == want) {
            let mut p = props.clone();
            if got.is_panic() {
                p.push("C05");
            }
            r.finding("stream_dec", &p, json!({"bytes": b, "want": want, "got": crate::ops::outcome_json(&got, |x| json!({"vs": x.0, "left": x.1}))}));
        }
    } else {
        r.count("stream_dec_only");
        let exp = case["exp"].as_array().unwrap();
        let got = stream_decode(&types, &b);
        let ok = match (&got, exp[0].as_str().unwrap()) {
            (Outcome::Ok((x, _)), "ok") => exp.get(1).map(|w| x.last() == Some(w)).unwrap_or(true),
            (Outcome::Err(c, _), "err") => exp.get(1).and_then(|w| w.as_str()).map(|w| w == *c).unwrap_or(true),
            _ => false,
        };
        if !ok {
            let mut p = props.clone();
            if got.is_panic() {
                p.push("C05");
            }
            r.finding("stream_dec_only", &p, json!({"bytes": b, "want": exp, "got": crate::ops::outcome_json(&got, |x| json!({"vs": x.0, "left": x.1}))}));
        }
    }
}
