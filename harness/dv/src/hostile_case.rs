//! Untrusted input: kinds "raw", "fuzz", "tamper", "witness" (C05, C06).
//!
//! The reference decoder's verdict `exp` on an input is one of
//!   ["ok", <value>, <bytes used>]   ["err", <class> [, <detail suffix>]]   ["unspec"]   ["huge"]
//! Rules (DESIGN 6 C05/C06, 8):
//!   - a panic, a decode slower than the time budget, or an allocation above the heap budget
//!     is a C05 finding whatever the reference says;
//!   - the implementation accepting what the reference rejects, or accepting with a different
//!     value / length, is a C06 finding (`ok_props`);
//!   - the implementation rejecting what the reference accepts is a finding only for the
//!     properties in `must_props` (it may be stricter as far as C06 is concerned);
//!   - differing error classes matter only for `class_props`;
//!   - "unspec" and "huge" inputs are checked for totality only ("huge": zero-width elements
//!     with a large count, DESIGN 7 D14, are skipped unless the case is a witness).
use crate::ops::{Outcome, TypeOps};
use crate::runner::{bytes_of, Dispatch, Report};
use serde_json::{json, Value};
use std::collections::HashMap;
use std::time::Instant;

fn strs(v: &Value) -> Vec<&str> {
    v.as_array().map(|a| a.iter().filter_map(|x| x.as_str()).collect()).unwrap_or_default()
}

pub struct Props<'a> {
    pub ok: Vec<&'a str>,
    pub must: Vec<&'a str>,
    pub class: Vec<&'a str>,
}
impl<'a> Props<'a> {
    pub fn of(case: &'a Value) -> Self {
        Props {
            ok: if case.get("ok_props").is_some() { strs(&case["ok_props"]) } else { vec!["C06"] },
            must: strs(&case["must_props"]),
            class: strs(&case["class_props"]),
        }
    }
}

pub const TIME_BUDGET_MS: u128 = 2000;
pub fn heap_budget(len: usize) -> (usize, usize) {
    // (largest single request, peak)
    ((1usize << 20) + 1024 * len, (8usize << 20) + 2048 * len)
}

/// decode b under the monitors and compare with the reference verdict
pub fn judge(ops: &dyn TypeOps, b: &[u8], exp: &[Value], props: &Props, r: &mut Report) {
    r.count("hostile");
    crate::runner::progress(b);
    crate::alloc::reset();
    crate::alloc::set_poison(0xA5);
    let t0 = Instant::now();
    let got = ops.decode(b);
    let ms = t0.elapsed().as_millis();
    let (max_req, peak) = crate::alloc::snapshot();
    crate::alloc::set_poison(0);
    // a value built only from initialised data taken from the input does not depend on what fresh memory holds
    if let Outcome::Ok(d) = &got {
        if ms < 200 {
            crate::alloc::set_poison(0x5A);
            let again = ops.decode(b);
            crate::alloc::set_poison(0);
            r.count("decoded_twice_with_different_fresh_memory");
            let same = matches!(&again, Outcome::Ok(d2) if d2.v == d.v && d2.left == d.left);
            if !same {
                r.finding("uninit", &["C05", "C19"], json!({"ty": ops.rust_name(), "bytes": b,
                    "what": "the decoded value depends on the contents of fresh heap memory", "first": d.v, "second": crate::ops::outcome_json(&again, |d| json!({"v": d.v, "left": d.left}))}));
            }
        }
    }
    let gj = crate::ops::outcome_json(&got, |d| json!({"v": d.v, "left": d.left}));
    if let Outcome::Panic(m) = &got {
        let mut p = vec!["C05"];
        p.extend(props.class.iter());
        r.finding("panic", &p, json!({"ty": ops.rust_name(), "bytes": b, "panic": m, "ref": exp}));
        return;
    }
    if ms > TIME_BUDGET_MS {
        r.finding("slow", &["C05"], json!({"ty": ops.rust_name(), "bytes": b, "ms": ms as u64, "ref": exp}));
    }
    let (lim_req, lim_peak) = heap_budget(b.len());
    if max_req > lim_req || peak > lim_peak {
        r.finding("alloc", &["C05"], json!({"ty": ops.rust_name(), "bytes": b, "largest_request": max_req, "peak": peak,
            "budget": [lim_req, lim_peak], "ref": exp}));
    }
    match exp[0].as_str().unwrap() {
        "unspec" | "huge" => {}
        "ok" => {
            let used = exp[2].as_u64().unwrap() as usize;
            match (&got, ops.canon(&exp[1])) {
                (_, Err(_)) => r.skip("expected value outside the glue's domain"),
                (Outcome::Ok(d), Ok(want)) => {
                    if d.v != want || b.len() - d.left != used {
                        r.finding("differs", &props.ok, json!({"ty": ops.rust_name(), "bytes": b, "want": {"v": want, "used": used}, "got": gj}));
                    }
                }
                (Outcome::Err(..), Ok(want)) => {
                    if !props.must.is_empty() {
                        r.finding("rejected", &props.must, json!({"ty": ops.rust_name(), "bytes": b, "want": want, "got": gj}));
                    } else {
                        r.count("stricter_than_reference");
                    }
                }
                _ => {}
            }
        }
        "err" => match &got {
            Outcome::Ok(_) => {
                r.finding("accepted", &props.ok, json!({"ty": ops.rust_name(), "bytes": b, "ref": exp, "got": gj}));
            }
            Outcome::Err(c, d) => {
                let wc = exp.get(1).and_then(|x| x.as_str()).unwrap_or("*");
                let wd = exp.get(2).and_then(|x| x.as_str()).unwrap_or("");
                let same = (wc == "*" || wc == *c) && (wd.is_empty() || wd == "*" || d.ends_with(wd));
                if !same {
                    if !props.class.is_empty() {
                        r.finding("errclass", &props.class, json!({"ty": ops.rust_name(), "bytes": b, "ref": exp, "got": gj}));
                    } else {
                        r.count("other_error_class");
                    }
                }
            }
            _ => {}
        },
        other => panic!("verdict kind {other}"),
    }
}

fn ops_of(case: &Value, dispatch: Dispatch, r: &mut Report) -> Option<&'static dyn TypeOps> {
    let o = dispatch(case["rt"].as_u64().unwrap() as usize);
    if o.is_none() {
        r.skip("type not compiled");
    }
    o
}

/// {"kind":"raw","rt":tid,"b":[..],"exp":[..], props..}
pub fn raw_case(case: &Value, dispatch: Dispatch, r: &mut Report) {
    if let Some(ops) = ops_of(case, dispatch, r) {
        let b = bytes_of(&case["b"]);
        judge(ops, &b, case["exp"].as_array().expect("exp"), &Props::of(case), r);
    }
}

/// {"kind":"witness","rt":tid,"b":[..] | "gen":{"unit":[..],"times":n,"tail":[..]},"exp":[..]}: a listed known finding
pub fn witness_case(case: &Value, dispatch: Dispatch, r: &mut Report) {
    if let Some(ops) = ops_of(case, dispatch, r) {
        let b = if case.get("gen").is_some() {
            let g = &case["gen"];
            let unit = bytes_of(&g["unit"]);
            let mut b = Vec::new();
            for _ in 0..g["times"].as_u64().unwrap() {
                b.extend(&unit);
            }
            b.extend(bytes_of(&g["tail"]));
            b
        } else {
            bytes_of(&case["b"])
        };
        judge(ops, &b, case["exp"].as_array().expect("exp"), &Props::of(case), r);
    }
}

/// {"kind":"fuzz","rt":tid,"alphabet":[..],"maxlen":n,"nonerr":[[bytes, verdict],..]}: every string over
/// the alphabet up to maxlen; inputs not listed are errors for the reference
pub fn fuzz_case(case: &Value, dispatch: Dispatch, r: &mut Report) {
    let ops = match ops_of(case, dispatch, r) {
        Some(o) => o,
        None => return,
    };
    let mut alphabet: Vec<u8> = bytes_of(&case["alphabet"]);
    alphabet.sort();
    let maxlen = case["maxlen"].as_u64().unwrap() as usize;
    let mut verdicts: HashMap<Vec<u8>, &Vec<Value>> = HashMap::new();
    for e in case["nonerr"].as_array().unwrap() {
        verdicts.insert(bytes_of(&e[0]), e[1].as_array().unwrap());
    }
    let props = Props::of(case);
    let err = vec![json!("err"), json!("*")];
    let mut cur: Vec<Vec<u8>> = vec![vec![]];
    for _len in 0..=maxlen {
        for b in &cur {
            match verdicts.get(b) {
                Some(v) if v[0] == "huge" => r.count("skipped_known_class_huge"),
                Some(v) => judge(ops, b, v, &props, r),
                None => judge(ops, b, &err, &props, r),
            }
        }
        let mut next = Vec::with_capacity(cur.len() * alphabet.len());
        for b in &cur {
            for a in &alphabet {
                let mut x = b.clone();
                x.push(*a);
                next.push(x);
            }
        }
        cur = next;
    }
}

pub fn apply_op(e: &[u8], op: &[i64]) -> Vec<u8> {
    let i = op[1] as usize; // 1-based
    let a = op[2] as u8;
    let mut out = e.to_vec();
    match op[0] {
        0 => out[i - 1] = a,
        1 => {
            out.remove(i - 1);
        }
        2 => out.insert(i, e[i - 1]),
        3 => out.insert(i - 1, a),
        4 => out.swap(i - 1, i),
        k => panic!("tamper op {k}"),
    }
    out
}

/// {"kind":"tamper","rt":tid,"b":[..],"verdicts":[[[op,i,a], verdict],..]}
pub fn tamper_case(case: &Value, dispatch: Dispatch, r: &mut Report) {
    let ops = match ops_of(case, dispatch, r) {
        Some(o) => o,
        None => return,
    };
    let base = bytes_of(&case["b"]);
    let props = Props::of(case);
    // implementation trace of the reader mechanism for every tampered input of this case
    if let Some(mut t) = crate::trace::TraceFile::open(case) {
        for e in case["verdicts"].as_array().unwrap() {
            if e[1][0] == "huge" {
                continue;
            }
            let op: Vec<i64> = e[0].as_array().unwrap().iter().map(|x| x.as_i64().unwrap()).collect();
            let b = apply_op(&base, &op);
            t.start();
            let _ = ops.decode_top(&b);
            let evs = t.stop();
            crate::trace::reader_events(&mut t, &evs);
            r.count("traced_decodes");
        }
        t.flush();
    }
    for e in case["verdicts"].as_array().unwrap() {
        let op: Vec<i64> = e[0].as_array().unwrap().iter().map(|x| x.as_i64().unwrap()).collect();
        let v = e[1].as_array().unwrap();
        if v[0] == "huge" {
            r.count("skipped_known_class_huge");
            continue;
        }
        let b = apply_op(&base, &op);
        judge(ops, &b, v, &props, r);
    }
}

/// {"kind":"sweep","rt":tid,"n":k}: all 256^k byte strings of length k; totality only
pub fn sweep_case(case: &Value, dispatch: Dispatch, r: &mut Report) {
    let ops = match ops_of(case, dispatch, r) {
        Some(o) => o,
        None => return,
    };
    let n = case["n"].as_u64().unwrap() as u32;
    let total = 256u64.pow(n);
    let stride = case["stride"].as_u64().unwrap_or(1);
    let mut x = case["phase"].as_u64().unwrap_or(0) % stride.max(1);
    while x < total {
        let mut b = vec![0u8; n as usize];
        let mut y = x;
        for i in (0..n as usize).rev() {
            b[i] = (y % 256) as u8;
            y /= 256;
        }
        r.count("sweep");
        crate::runner::progress(&b);
        let t0 = Instant::now();
        let got = ops.decode(&b);
        if let Outcome::Panic(m) = &got {
            r.finding("panic", &["C05"], json!({"ty": ops.rust_name(), "bytes": b, "panic": m}));
        }
        if t0.elapsed().as_millis() > TIME_BUDGET_MS {
            r.finding("slow", &["C05"], json!({"ty": ops.rust_name(), "bytes": b}));
        }
        x += stride;
    }
}
