//! Replay harness: TLC-generated behaviours are replayed into the real library.
pub mod model;
pub mod ops;
pub mod runner;
pub mod codec_case;
pub mod inchunk;
pub mod evo_case;
pub mod hostile_case;
pub mod stream_case;
pub mod graph;
pub mod varint;
pub mod cont_case;
pub mod prim_case;
pub mod prim_out_case;
pub mod deep_case;
pub mod nested_case;
pub mod total_case;
pub mod compress_case;
pub mod stress_case;
pub mod trace;
pub mod alloc;

pub use model::{mv, ModelType, Opt, VarU32};
pub use inchunk::InChunk;
pub use ops::{Ops, TypeOps};
pub use runner::{run_main, Dispatch, Report};

pub mod desert {
    pub use desert_core::*;
}
